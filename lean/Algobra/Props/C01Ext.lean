/-
  Props/C01Ext.lean — C01/C02 (and the mathematics behind C18), extension-field part:
  the arithmetic of package `extfield` (model: `Algobra.Ext.*`, `Algobra.extOps`; Go source
  /repo/finitefield/extfield/{arithmetic,element,extfield,tables}.go) is arithmetic in the field
  `F_p[X]/(g)`.

  Setting: `p` prime with `p - 1 < 2^32` (guard of `primefield.Define`), `n ≥ 1`,
  `g : List Nat` the Conway polynomial as a coefficient list: well-formed w.r.t. the prime-field
  record (`c < p` for all coefficients, canonical shape), monic of degree `n` — this is
  `Modulus h32 n g` (`modulus_iff`, `modulus_of_list`) — irreducible (C04's theorem, a hypothesis
  here), and `p^n < 2^64` for the operations that read `Card()` (the only `w64` in this part of the
  model is the wrapping product in `Ext.card`; `Ext.card_eq` discharges it).
  `L = PL h32 = primeLawfulFact p h32 : Lawful (primeOps p) (ZMod p)` is the C01 prime-field result.
  Elements are coefficient lists; `Valid h32 n a` ⇔ `a` well-formed and `a.length ≤ n` (degree `< n`);
  `emb h32 g a = AdjoinRoot.mk (toPoly L g) (toPoly L a)` is the class of `a` in
  `K = AdjoinRoot (toPoly L g) = F_p[X]/(g)`.  Proofs are in Proofs/ExtField.lean.
-/
import Algobra.Proofs.ExtField

open Polynomial

namespace Algobra
namespace C01Ext
open UPoly ExtField

section Record
variable {p n : Nat} {g : List Nat}

/-- the record delegates to the univariate operations over `primeOps p` -/
theorem extOps_add : (extOps p n g).add = UPoly.add (primeOps p) := rfl
theorem extOps_sub : (extOps p n g).sub = UPoly.sub (primeOps p) := rfl
theorem extOps_neg : (extOps p n g).neg = UPoly.neg (primeOps p) := rfl
theorem extOps_mul : (extOps p n g).mul = Ext.mul p g := rfl
theorem extOps_inv : (extOps p n g).inv = Ext.inv p g := rfl
theorem extOps_pow : (extOps p n g).pow = Ext.pow p n g := rfl
theorem extOps_trace : (extOps p n g).trace = Ext.trace p n g := rfl
theorem extOps_beq : (extOps p n g).beq = UPoly.equal (primeOps p) := rfl
theorem extOps_isZero : (extOps p n g).isZero = UPoly.isZero (primeOps p) := rfl
theorem extOps_isOne : (extOps p n g).isOne = UPoly.isOne (primeOps p) := rfl
theorem extOps_zero : (extOps p n g).zero = [0] := rfl
theorem extOps_one : (extOps p n g).one = [1 % p] := rfl

/-- `Card()`: the wrapping product `p·p·…·p` is `p^n` -/
theorem ext_card_spec (hq : p ^ n < 2 ^ 64) : (extOps p n g).card = p ^ n :=
  Ext.card_eq p n hq

/-- `Inv` of the zero element `[0]` is the InputValue error, whatever the field -/
theorem ext_inv_zero' : (extOps p n g).inv [0] = none := rfl

end Record

section
variable {p : Nat} [Fact p.Prime] {h32 : p - 1 < 2 ^ 32} {n : Nat} {g : List Nat}

/-! ### 0. the setting, spelled out -/

/-- what `Modulus` says -/
theorem modulus_iff : Modulus h32 n g ↔ WF (PL h32) g ∧ (toPoly (PL h32) g).Monic ∧
    (toPoly (PL h32) g).natDegree = n ∧ 1 ≤ n :=
  ⟨fun h => ⟨h.wf, h.monic, h.deg, h.npos⟩, fun h => ⟨h.1, h.2.1, h.2.2.1, h.2.2.2⟩⟩

/-- well-formed over the prime field: coefficients are canonical residues, no trailing zeros -/
theorem wf_iff (a : UPoly Nat) : WF (PL h32) a ↔ (∀ c ∈ a, c < p) ∧ Canon (primeOps p) a := Iff.rfl

/-- the shape `extfield.Define` produces: `n + 1` coefficients below `p`, the last one `1` -/
theorem modulus_of_list (hn : 1 ≤ n) (hlen : g.length = n + 1) (hc : ∀ c ∈ g, c < p)
    (hlast : g.getD n 0 = 1) : Modulus h32 n g :=
  ExtField.modulus_of_list hn hlen hc hlast

theorem valid_iff_length (a : UPoly Nat) : Valid h32 n a ↔ WF (PL h32) a ∧ a.length ≤ n := Iff.rfl

theorem valid_iff_degree (M : Modulus h32 n g) (a : UPoly Nat) :
    Valid h32 n a ↔ WF (PL h32) a ∧ (toPoly (PL h32) a).degree < (toPoly (PL h32) g).degree :=
  ExtField.valid_iff M a

theorem emb_def (a : UPoly Nat) :
    emb h32 g a = AdjoinRoot.mk (toPoly (PL h32) g) (toPoly (PL h32) a) := rfl

/-- equality of classes is congruence modulo `g` -/
theorem emb_eq_iff_dvd (a b : UPoly Nat) :
    emb h32 g a = emb h32 g b ↔ toPoly (PL h32) g ∣ toPoly (PL h32) a - toPoly (PL h32) b :=
  ExtField.emb_eq_iff

theorem ext_zero_spec (M : Modulus h32 n g) :
    Valid h32 n (extOps p n g).zero ∧ emb h32 g (extOps p n g).zero = 0 :=
  ⟨valid_zero M, emb_zero⟩

theorem ext_one_spec (M : Modulus h32 n g) :
    Valid h32 n (extOps p n g).one ∧ emb h32 g (extOps p n g).one = 1 :=
  ⟨valid_one M, emb_one⟩

/-! ### 1. `Add`, `Sub`, `Neg`, `Mult` -/

theorem ext_add_spec (M : Modulus h32 n g) {a b : UPoly Nat} (ha : Valid h32 n a)
    (hb : Valid h32 n b) :
    Valid h32 n ((extOps p n g).add a b) ∧
      emb h32 g ((extOps p n g).add a b) = emb h32 g a + emb h32 g b :=
  add_spec M ha hb

theorem ext_sub_spec (M : Modulus h32 n g) {a b : UPoly Nat} (ha : Valid h32 n a)
    (hb : Valid h32 n b) :
    Valid h32 n ((extOps p n g).sub a b) ∧
      emb h32 g ((extOps p n g).sub a b) = emb h32 g a - emb h32 g b :=
  sub_spec M ha hb

theorem ext_neg_spec (M : Modulus h32 n g) {a : UPoly Nat} (ha : Valid h32 n a) :
    Valid h32 n ((extOps p n g).neg a) ∧ emb h32 g ((extOps p n g).neg a) = - emb h32 g a :=
  neg_spec M ha

/-- `Mult` (zero shortcut or `Times` of the quotient ring): the result is valid, it is the product
    of the classes, and as a polynomial it is exactly the remainder of the product modulo `g` -/
theorem ext_mul_spec (M : Modulus h32 n g) {b c : UPoly Nat} (hb : Valid h32 n b)
    (hc : Valid h32 n c) :
    Valid h32 n ((extOps p n g).mul b c) ∧
      emb h32 g ((extOps p n g).mul b c) = emb h32 g b * emb h32 g c ∧
      toPoly (PL h32) ((extOps p n g).mul b c) =
        (toPoly (PL h32) b * toPoly (PL h32) c) %ₘ toPoly (PL h32) g :=
  ⟨(mul_spec M hb hc).1, (mul_spec M hb hc).2, mul_toPoly M hb hc⟩

/-- the non-shortcut branch on its own: `Times` of the ring never runs out of fuel (`unwrap`'s
    default is not used) -/
theorem ext_times_defined (M : Modulus h32 n g) {b c : UPoly Nat} (hb : Valid h32 n b)
    (hc : Valid h32 n c) : ∃ r, UPoly.times (Ext.ring p g) b c = some r ∧ Valid h32 n r := by
  obtain ⟨r, h1, h2, -, h4⟩ := times_spec' M hb.1.1 hc.1.1
  exact ⟨r, h1, valid_of_degree_lt M h2 h4⟩

/-! ### 2. canonical representatives: `Equal`, `IsZero`, `IsOne` -/

/-- valid representations of the same class are the same list -/
theorem ext_canonical (M : Modulus h32 n g) {a b : UPoly Nat} (ha : Valid h32 n a)
    (hb : Valid h32 n b) : a = b ↔ emb h32 g a = emb h32 g b :=
  ⟨fun h => h ▸ rfl, emb_injective M ha hb⟩

theorem ext_equal_iff (M : Modulus h32 n g) {a b : UPoly Nat} (ha : Valid h32 n a)
    (hb : Valid h32 n b) :
    (extOps p n g).beq a b = true ↔ emb h32 g a = emb h32 g b :=
  equal_iff_emb M ha hb

theorem ext_isZero_iff (M : Modulus h32 n g) {a : UPoly Nat} (ha : Valid h32 n a) :
    (extOps p n g).isZero a = true ↔ emb h32 g a = 0 :=
  isZero_iff_emb M ha

theorem ext_isOne_iff (M : Modulus h32 n g) {a : UPoly Nat} (ha : Valid h32 n a) :
    (extOps p n g).isOne a = true ↔ emb h32 g a = 1 :=
  isOne_iff_emb M ha

/-! ### 3. `ElementFromUnsigned`, `ElementFromSigned`, the generator -/

theorem ext_ofNat_spec (M : Modulus h32 n g) (v : Nat) :
    Valid h32 n ((extOps p n g).ofNat v) ∧
      emb h32 g ((extOps p n g).ofNat v) = (v : AdjoinRoot (toPoly (PL h32) g)) :=
  ofNat_spec M v

theorem ext_ofInt_spec (M : Modulus h32 n g) (v : Int) :
    Valid h32 n ((extOps p n g).ofInt v) ∧
      emb h32 g ((extOps p n g).ofInt v) = (v : AdjoinRoot (toPoly (PL h32) g)) :=
  ofInt_spec M v

/-- `extOps.gen` is the class of `X`, the root `a` of the Conway polynomial -/
theorem ext_gen_spec (M : Modulus h32 n g) :
    Valid h32 n (extOps p n g).gen ∧
      emb h32 g (extOps p n g).gen = AdjoinRoot.root (toPoly (PL h32) g) :=
  gen_spec M

/-! ### 4. `Card`, `Pow` -/

/-- the quotient has `p^n` elements -/
theorem card_field (M : Modulus h32 n g) : Nat.card (AdjoinRoot (toPoly (PL h32) g)) = p ^ n :=
  natCard_adjoinRoot M

/-- `Pow`, including the zero cases and the exponent shortcut `k ≥ p^n ↦ k mod (p^n - 1)` (which
    uses `x^(p^n-1) = 1` in the field with `p^n` elements). Holds for every `k`, in particular for
    every `uint` exponent `k < 2^64`. -/
theorem ext_pow_spec (M : Modulus h32 n g) (hirr : Irreducible (toPoly (PL h32) g))
    (hq : p ^ n < 2 ^ 64) {a : UPoly Nat} (ha : Valid h32 n a) (k : Nat) :
    Valid h32 n ((extOps p n g).pow a k) ∧ emb h32 g ((extOps p n g).pow a k) = emb h32 g a ^ k :=
  haveI := Fact.mk hirr
  pow_spec M hq ha k

/-! ### 5. `Inv` -/

/-- one pass of the Euclid loop of `Inv` keeps the invariant (`r1` monic, `i_k·x ≡ r_k`, `(r0,r1)`
    coprime) and ends with the inverse once the fuel exceeds `deg r1`; no irreducibility needed -/
theorem ext_invLoop_spec (M : Modulus h32 n g) (x : AdjoinRoot (toPoly (PL h32) g)) (fuel : Nat)
    (r0 r1 i0 i1 : UPoly Nat) (h0 : WF (PL h32) r0) (h1 : WF (PL h32) r1)
    (hmon : (toPoly (PL h32) r1).Monic) (hi0 : Valid h32 n i0) (hi1 : Valid h32 n i1)
    (e0 : emb h32 g i0 * x = emb h32 g r0) (e1 : emb h32 g i1 * x = emb h32 g r1)
    (hcop : IsCoprime (toPoly (PL h32) r0) (toPoly (PL h32) r1))
    (hfuel : (toPoly (PL h32) r1).natDegree < fuel) :
    Valid h32 n (Ext.invLoop p g fuel r0 r1 i0 i1) ∧
      emb h32 g (Ext.invLoop p g fuel r0 r1 i0 i1) * x = 1 :=
  invLoop_spec M x fuel r0 r1 i0 i1 h0 h1 hmon hi0 hi1 e0 e1 hcop hfuel

/-- `Inv` returns the inverse of every nonzero element: the fuel `len g + 2` of the model suffices,
    the loop stops when the monic remainder is the gcd `1` -/
theorem ext_inv_spec (M : Modulus h32 n g) (hirr : Irreducible (toPoly (PL h32) g))
    {a : UPoly Nat} (ha : Valid h32 n a) (h0 : emb h32 g a ≠ 0) :
    ∃ i, (extOps p n g).inv a = some i ∧ Valid h32 n i ∧ emb h32 g i * emb h32 g a = 1 :=
  inv_spec M hirr ha h0

/-- the same with the hypothesis read off the list: `a` is not the zero element `[0]` -/
theorem ext_inv_spec' (M : Modulus h32 n g) (hirr : Irreducible (toPoly (PL h32) g))
    {a : UPoly Nat} (ha : Valid h32 n a) (h0 : a ≠ [0]) :
    ∃ i, (extOps p n g).inv a = some i ∧ Valid h32 n i ∧
      toPoly (PL h32) g ∣ toPoly (PL h32) i * toPoly (PL h32) a - 1 := by
  have hne : emb h32 g a ≠ 0 := by
    intro h
    rw [← emb_zero (h32 := h32) (g := g)] at h
    exact h0 (emb_injective M ha (valid_zero M) h)
  obtain ⟨i, h1, h2, h3⟩ := inv_spec M hirr ha hne
  refine ⟨i, h1, h2, ?_⟩
  exact AdjoinRoot.mk_eq_mk.1 ((map_mul _ _ _).trans (h3.trans (map_one _).symm))

/-- `Inv` of the zero element is the InputValue error -/
theorem ext_inv_zero (M : Modulus h32 n g) {a : UPoly Nat} (ha : Valid h32 n a)
    (h0 : emb h32 g a = 0) : (extOps p n g).inv a = none :=
  inv_zero M ha h0

/-! ### 6. `Trace` -/

/-- `Trace` computes `∑_{i<n} a^(p^i)`, which is the field trace `GF(p^n) → GF(p)` -/
theorem ext_trace_spec (M : Modulus h32 n g) (hirr : Irreducible (toPoly (PL h32) g))
    (hq : p ^ n < 2 ^ 64) {a : UPoly Nat} (ha : Valid h32 n a) :
    Valid h32 n ((extOps p n g).trace a) ∧
      emb h32 g ((extOps p n g).trace a) = ∑ i ∈ Finset.range n, emb h32 g a ^ p ^ i :=
  haveI := Fact.mk hirr
  trace_spec M hq ha

/-- the trace is fixed by the Frobenius `x ↦ x^p` -/
theorem ext_trace_frobenius (M : Modulus h32 n g) (hirr : Irreducible (toPoly (PL h32) g))
    (hq : p ^ n < 2 ^ 64) {a : UPoly Nat} (ha : Valid h32 n a) :
    emb h32 g ((extOps p n g).trace a) ^ p = emb h32 g ((extOps p n g).trace a) :=
  haveI := Fact.mk hirr
  trace_pow_char M hq ha

/-- it is Mathlib's `Algebra.trace` to the prime field -/
theorem ext_trace_eq_algebra_trace (M : Modulus h32 n g)
    [Fact (Irreducible (toPoly (PL h32) g))] (hq : p ^ n < 2 ^ 64) {a : UPoly Nat}
    (ha : Valid h32 n a) :
    emb h32 g ((extOps p n g).trace a)
      = algebraMap (ZMod p) (AdjoinRoot (toPoly (PL h32) g))
          (Algebra.trace (ZMod p) (AdjoinRoot (toPoly (PL h32) g)) (emb h32 g a)) :=
  trace_eq_algebra_trace M hq ha

/-! ### 7. lawfulness of the record `extOps` -/

/-- `extOps p n g` implements the field `F_p[X]/(g)`; `embed a` is the class of `toPoly L a`,
    `valid a` is `Valid h32 n a`.  (No extra hypothesis: `inv_some` is `ext_inv_spec`.) -/
noncomputable def extLawful (M : Modulus h32 n g) [Fact (Irreducible (toPoly (PL h32) g))] :
    Lawful (extOps p n g) (AdjoinRoot (toPoly (PL h32) g)) :=
  ExtField.extLawful M

theorem extLawful_embed (M : Modulus h32 n g) [Fact (Irreducible (toPoly (PL h32) g))]
    (a : UPoly Nat) : (extLawful M).embed a = emb h32 g a := rfl

theorem extLawful_valid (M : Modulus h32 n g) [Fact (Irreducible (toPoly (PL h32) g))]
    (a : UPoly Nat) : (extLawful M).valid a ↔ Valid h32 n a := Iff.rfl

/-- `pow` and `trace` of the record (not part of `Lawful`) agree with the field -/
theorem extLawful_pow (M : Modulus h32 n g) [Fact (Irreducible (toPoly (PL h32) g))]
    (hq : p ^ n < 2 ^ 64) {a : UPoly Nat} (ha : (extLawful M).valid a) (k : Nat) :
    (extLawful M).valid ((extOps p n g).pow a k) ∧
      (extLawful M).embed ((extOps p n g).pow a k) = (extLawful M).embed a ^ k :=
  pow_spec M hq ha k

end

/-! ### 8. the log table (C18): the mathematics of `invLog[(log b + log c) mod (q-1)]` -/

/-- `Mult` with a log table: for `invLog[i] = γ^i` and `γ` of order `q - 1`,
    `invLog[(s + t) mod (q-1)] = γ^s · γ^t` -/
theorem log_mul {G : Type*} [Monoid G] {γ : G} {N : Nat} (hγ : orderOf γ = N) (s t : Nat) :
    γ ^ ((s + t) % N) = γ ^ s * γ ^ t :=
  ExtField.log_mul hγ s t

/-- `Inv` with a log table: `invLog[q-1-s] · γ^s = 1`; for `0 < s < q-1` (the element is neither
    zero nor one) the index `q-1-s` is again in the table range -/
theorem log_inv {G : Type*} [Monoid G] {γ : G} {N : Nat} (hγ : orderOf γ = N) {s : Nat}
    (hs0 : 0 < s) (hs : s < N) : N - s < N ∧ γ ^ (N - s) * γ ^ s = 1 :=
  ⟨by omega, ExtField.log_inv hγ hs.le⟩

/-- in a field: `invLog[q-1-s] = (γ^s)⁻¹` -/
theorem log_inv_field {K : Type*} [Field K] {γ : K} {N : Nat} (hγ : orderOf γ = N) {s : Nat}
    (hs : s ≤ N) : γ ^ (N - s) = (γ ^ s)⁻¹ :=
  eq_inv_of_mul_eq_one_left (ExtField.log_inv hγ hs)

/-- the table is total on nonzero elements: a primitive `γ` reaches every unit with an index
    `s < q - 1` -/
theorem log_exists {K : Type*} [Field K] [Fintype K] {γ : K}
    (hγ : orderOf γ = Fintype.card K - 1) {x : K} (hx : x ≠ 0) :
    ∃ s, s < Fintype.card K - 1 ∧ γ ^ s = x :=
  ExtField.log_exists hγ hx

/-- products through the table agree with field products -/
theorem log_mul_field {K : Type*} [Field K] [Fintype K] {γ : K}
    (hγ : orderOf γ = Fintype.card K - 1) {x y : K} (hx : x ≠ 0) (hy : y ≠ 0) :
    ∃ s t, s < Fintype.card K - 1 ∧ t < Fintype.card K - 1 ∧ γ ^ s = x ∧ γ ^ t = y ∧
      γ ^ ((s + t) % (Fintype.card K - 1)) = x * y := by
  obtain ⟨s, hs, rfl⟩ := ExtField.log_exists hγ hx
  obtain ⟨t, ht, rfl⟩ := ExtField.log_exists hγ hy
  exact ⟨s, t, hs, ht, rfl, rfl, ExtField.log_mul hγ s t⟩

/-! ### non-vacuity and sanity evaluations: GF(9) = F_3[a]/(a² + 2a + 2), `g = [2, 2, 1]` -/

section Examples

/-- the hypotheses are satisfiable: `3` is prime, `3 - 1 < 2^32`, `[2,2,1]` is a modulus of degree
    `2`, irreducible, and `3^2 < 2^64` -/
example : Modulus h32_three 2 [2, 2, 1] ∧ Irreducible (toPoly (PL h32_three) [2, 2, 1]) ∧
    3 ^ 2 < 2 ^ 64 := ⟨gf9_modulus, gf9_irreducible, by norm_num⟩

example : Modulus h32_three 2 [2, 2, 1] :=
  modulus_of_list (by decide) rfl (by decide) rfl

example : toPoly (PL h32_three) [2, 2, 1] = X ^ 2 + (C 2 * X + C 2) := toPoly_gf9

/-- `1 + 2a` and `a` are valid elements -/
theorem v12 : Valid h32_three 2 [1, 2] := gf9_valid (by decide) (by unfold Canon; decide) (by decide)
theorem v01 : Valid h32_three 2 [0, 1] := gf9_valid (by decide) (by unfold Canon; decide) (by decide)

example := ext_add_spec gf9_modulus v12 v01
example := ext_sub_spec gf9_modulus v12 v01
example := ext_neg_spec gf9_modulus v12
example := ext_mul_spec gf9_modulus v12 v01
example := ext_equal_iff gf9_modulus v12 v01
example := ext_isZero_iff gf9_modulus v12
example := ext_isOne_iff gf9_modulus v12
example := ext_ofNat_spec gf9_modulus 7
example := ext_ofInt_spec gf9_modulus (-1)
example := ext_gen_spec gf9_modulus
example := ext_pow_spec gf9_modulus gf9_irreducible (by norm_num) v01 1000
example := ext_inv_spec' gf9_modulus gf9_irreducible v12 (by decide)
example := ext_trace_spec gf9_modulus gf9_irreducible (by norm_num) v12
example := ext_trace_frobenius gf9_modulus gf9_irreducible (by norm_num) v12

theorem toPoly_a : toPoly (PL h32_three) [0, 1] = X := by
  simp only [toPoly_cons, toPoly_nil, primeLawfulFact_embed]
  simp

/-- the hypotheses of the loop invariant `ext_invLoop_spec` are satisfiable: the first state of
    `Inv(a)` in GF(9): `r0 = g`, `r1 = a`, `i0 = 0`, `i1 = 1` -/
example : Valid h32_three 2 (Ext.invLoop 3 [2, 2, 1] 5 [2, 2, 1] [0, 1] [0] [1]) ∧
    emb h32_three [2, 2, 1] (Ext.invLoop 3 [2, 2, 1] 5 [2, 2, 1] [0, 1] [0] [1]) *
      emb h32_three [2, 2, 1] [0, 1] = 1 := by
  refine ext_invLoop_spec gf9_modulus _ 5 _ _ _ _ gf9_modulus.wf v01.1 ?_ (valid_zero gf9_modulus)
    (valid_one gf9_modulus) ?_ ?_ ?_ ?_
  · rw [toPoly_a]; exact monic_X
  · rw [emb_zero, zero_mul]; unfold emb; rw [AdjoinRoot.mk_self]
  · show emb h32_three [2, 2, 1] [1 % 3] * _ = _
    rw [emb_one, one_mul]
  · rw [gf9_irreducible.coprime_iff_not_dvd]
    apply gf9_modulus.monic.not_dvd_of_degree_lt
    · rw [toPoly_a]; exact X_ne_zero
    · rw [gf9_modulus.degree_eq, toPoly_a, degree_X]; decide
  · rw [toPoly_a, natDegree_X]; decide

example : Ext.invLoop 3 [2, 2, 1] 5 [2, 2, 1] [0, 1] [0] [1] = [2, 1] := by decide +kernel

section
local instance factGF9 : Fact (Irreducible (toPoly (PL h32_three) [2, 2, 1])) := ⟨gf9_irreducible⟩
noncomputable example : Lawful (extOps 3 2 [2, 2, 1]) (AdjoinRoot (toPoly (PL h32_three) [2, 2, 1])) :=
  extLawful gf9_modulus
example := ext_trace_eq_algebra_trace gf9_modulus (by norm_num) v12
end

-- sanity evaluations of the model functions
example : (extOps 3 2 [2, 2, 1]).add [1, 2] [0, 1] = [1] := by decide
example : (extOps 3 2 [2, 2, 1]).sub [1, 2] [0, 1] = [1, 1] := by decide
example : (extOps 3 2 [2, 2, 1]).neg [1, 2] = [2, 1] := by decide
example : Ext.mul 3 [2, 2, 1] [1, 2] [0, 1] = [2] := by decide
example : Ext.mul 3 [2, 2, 1] [1, 2] [0] = [0] := by decide
example : Ext.inv 3 [2, 2, 1] [1, 2] = some [0, 2] := by decide +kernel
example : Ext.mul 3 [2, 2, 1] [0, 2] [1, 2] = [1] := by decide
example : Ext.inv 3 [2, 2, 1] [0, 1] = some [2, 1] := by decide +kernel
example : Ext.inv 3 [2, 2, 1] [0] = none := by decide
example : Ext.pow 3 2 [2, 2, 1] [0, 1] 4 = [2] := by decide +kernel
example : Ext.pow 3 2 [2, 2, 1] [0, 1] 8 = [1] := by decide +kernel
example : Ext.pow 3 2 [2, 2, 1] [0, 1] 1000 = [1] := by decide +kernel
example : Ext.pow 3 2 [2, 2, 1] [0] 0 = [1] := by decide +kernel
example : Ext.trace 3 2 [2, 2, 1] [0, 1] = [1] := by decide +kernel
example : Ext.trace 3 2 [2, 2, 1] [1, 2] = [1] := by decide +kernel
example : (extOps 3 2 [2, 2, 1]).ofNat 7 = [1] := by decide
example : (extOps 3 2 [2, 2, 1]).ofInt (-1) = [2] := by decide +kernel
example : (extOps 3 2 [2, 2, 1]).gen = [0, 1] := by decide
example : (extOps 3 2 [2, 2, 1]).card = 9 := by decide

/-- the log-table identities in a concrete cyclic group: `2` has order `4` in `(ZMod 5)ˣ ∪ {0}` -/
example : (2 : ZMod 5) ^ ((3 + 2) % 4) = 2 ^ 3 * 2 ^ 2 := by decide

end Examples

end C01Ext
end Algobra
