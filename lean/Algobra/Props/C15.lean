/-
  Props/C15.lean — property C15 (printing and parsing are mutually inverse): the part a theorem
  can carry.

  * prime-field elements: the parser `Prime.parse` is written directly in the model (the Go pattern
    `(-)?([0-9]+)` with the full-match check accepts exactly an optional minus followed by decimal
    digits; tie `GenTies.primeElemPattern_eq`), so the round trip is a theorem (`prime_roundtrip`),
    as are the signed reading, the exact accepted language and totality (for C17).
  * binary-field elements / univariate / bivariate polynomials: for simple variable names the
    parsers `Bin.parse`, `UPoly.parse`, `BPoly.parse` take their matches from the total tokenisers
    of `Model/Parse.lean`; round trips proved from them are in `Props/C15Full.lean` (binary and
    extension elements, univariate polynomials over prime fields).  For other names they run the
    regular-expression engine `Algobra.Regex` (`parseRx`, `stringToMapRx`: `partial def`s, opaque
    to the kernel).  Proved in this file, for both paths:
    the error kinds they can return whatever the engine does (`*_parse_error_kinds`, for C17);
    injectivity of the printers `Bin.toStr` (every name `SetVarName` accepts), `UPoly.toStr` over
    prime fields and the extension-field element printer (`bin_toStr_injective`,
    `upoly_toStr_injective_prime`, `extOps_toStr_injective`); the total number readers
    (`parseUint_roundtrip`, …).  The full property is stated as `C15_full`; it is validated by the
    round-trip correspondence run (tools/props.py `extra_C15`), not proved; `C15_partial` is the
    proved part.
-/
import Algobra.Proofs.Strings
import Algobra.Model.Ext
import Algobra.Model.BPoly
import Algobra.Model.Conway

namespace Algobra.C15
open Algobra Algobra.Strings

/-! ### B. prime-field elements -/

/-- Round trip: parsing the printed form of a canonical element `a < p` of a prime field whose
    characteristic fits a machine word returns `a`. (`primefield.Define` guarantees
    `p - 1 < 2^32`, a fortiori `p ≤ 2^64`.) -/
theorem prime_roundtrip {p a : Nat} (hp : p ≤ 2 ^ 64) (ha : a < p) :
    Prime.parse p ((primeOps p).toStr a) = .ok a := by
  show Prime.parse p (toString a) = .ok a
  rw [parse_of_isDigits p (isDigits_toString a), toNat!_toString]
  have h1 : ¬ a ≥ 2 ^ 64 := by omega
  rw [if_neg h1]
  unfold Prime.element
  rw [Nat.mod_eq_of_lt ha]

/-- the same under the guard `Prime.define` really checks -/
theorem prime_roundtrip' {p a : Nat} (hp : p - 1 < 2 ^ 32) (ha : a < p) :
    (primeOps p).parse ((primeOps p).toStr a) = .ok a :=
  prime_roundtrip (by omega) ha

/-- … and the result is `Equal` to the original -/
theorem prime_roundtrip_beq {p a : Nat} (hp : p - 1 < 2 ^ 32) (ha : a < p) :
    ∃ b, (primeOps p).parse ((primeOps p).toStr a) = .ok b ∧ (primeOps p).beq a b = true :=
  ⟨a, prime_roundtrip' hp ha, by show (a == a) = true; simp⟩

-- non-vacuity / sanity
example : (65537 : Nat) - 1 < 2 ^ 32 ∧ (65536 : Nat) < 65537 := by decide
example : Prime.parse 7 ((primeOps 7).toStr 5) = .ok 5 := by
  rw [prime_roundtrip (by decide) (by decide)]

/-- The printed form of an element round-trips through the wire decoder too (`enc`/`dec`). -/
theorem prime_enc_dec (p a : Nat) : (primeOps p).dec ((primeOps p).enc a) = some a := by
  show (if Prime.isDigits (toString a) then some (toString a).toNat! else none) = some a
  rw [if_pos (isDigits_toString a), toNat!_toString]

/-- Unsigned reading of an arbitrary decimal numeral (leading zeros allowed): `ElementFromUnsigned`
    of its value. -/
theorem prime_parse_nat {p a : Nat} (ha : a < 2 ^ 64) :
    Prime.parse p (toString a) = .ok (Prime.element p a) := by
  rw [parse_of_isDigits p (isDigits_toString a), toNat!_toString]
  have h1 : ¬ a ≥ 2 ^ 64 := by omega
  rw [if_neg h1]

/-- `strconv.ParseUint` range error -/
theorem prime_parse_nat_overflow {p a : Nat} (ha : 2 ^ 64 ≤ a) :
    Prime.parse p (toString a) = .error .parsing := by
  rw [parse_of_isDigits p (isDigits_toString a), toNat!_toString, if_pos ha]

/-- Signed reading: `-a` is `ElementFromSigned(-a)` for every `a` in the range of a Go `int`. -/
theorem prime_parse_neg {p a : Nat} (_h0 : 0 < a) (ha : a ≤ 2 ^ 63) :
    Prime.parse p ("-" ++ toString a) = .ok (Prime.fromSigned p (-(a : Int))) := by
  rw [parse_minus_of_isDigits p (isDigits_toString a), toNat!_toString]
  have h1 : ¬ a > 2 ^ 63 := by omega
  rw [if_neg h1]
  rfl

/-- `strconv.ParseInt` range error -/
theorem prime_parse_neg_overflow {p a : Nat} (ha : 2 ^ 63 < a) :
    Prime.parse p ("-" ++ toString a) = .error .parsing := by
  rw [parse_minus_of_isDigits p (isDigits_toString a), toNat!_toString, if_pos ha]

example : (0 : Nat) < 3 ∧ (3 : Nat) ≤ 2 ^ 63 := by decide
example : (0 : Nat) < 2 ^ 63 ∧ (2 : Nat) ^ 63 ≤ 2 ^ 63 := by decide

/-- rejection of ill-formed input -/
theorem prime_parse_empty (p : Nat) : Prime.parse p "" = .error .parsing := by
  rcases parse_cases p "" with h | ⟨t, ht, _⟩ | h
  · have := ((isDigits_iff "").1 h).1; exact absurd rfl this
  · have := congrArg String.toList ht
    simp at this
  · exact h

theorem prime_parse_abc (p : Nat) : Prime.parse p "abc" = .error .parsing := by
  rcases parse_cases p "abc" with h | ⟨t, ht, _⟩ | h
  · have := ((isDigits_iff "abc").1 h).2 'a' (by decide)
    exact absurd this (by decide)
  · have := congrArg String.toList ht
    simp at this
  · exact h

/-! ### the accepted language, exactly -/

/-- `Prime.parse` succeeds exactly on `digits` (value `< 2^64`) and `-digits` (value `≤ 2^63`),
    where `digits` is a non-empty list of ASCII digits — the language of the Go pattern
    `(-)?([0-9]+)` under the full-match check followed by `ParseUint`/`ParseInt`. The value is
    `ElementFromUnsigned` resp. `ElementFromSigned` of the numeral. -/
theorem prime_parse_ok_iff (p : Nat) (s : String) (v : Nat) :
    Prime.parse p s = .ok v ↔
      ∃ ds : List Char, ds ≠ [] ∧ (∀ c ∈ ds, c.isDigit = true) ∧
        ((s.toList = ds ∧ Nat.ofDigitChars 10 ds 0 < 2 ^ 64 ∧
            v = Prime.element p (Nat.ofDigitChars 10 ds 0)) ∨
         (s.toList = '-' :: ds ∧ Nat.ofDigitChars 10 ds 0 ≤ 2 ^ 63 ∧
            v = Prime.fromSigned p (-(Int.ofNat (Nat.ofDigitChars 10 ds 0))))) := by
  constructor
  · intro h
    rcases parse_cases p s with hd | ⟨t, ht, hd⟩ | he
    · rw [parse_of_isDigits p hd, toNat!_of_isDigits hd] at h
      obtain ⟨h1, h2⟩ := (isDigits_iff_toList s).1 hd
      refine ⟨s.toList, h1, h2, Or.inl ⟨rfl, ?_⟩⟩
      split at h
      · cases h
      · injection h with h; exact ⟨by omega, h.symm⟩
    · subst ht
      rw [parse_minus_of_isDigits p hd, toNat!_of_isDigits hd] at h
      obtain ⟨h1, h2⟩ := (isDigits_iff_toList t).1 hd
      refine ⟨t.toList, h1, h2, Or.inr ⟨by simp, ?_⟩⟩
      split at h
      · cases h
      · injection h with h; exact ⟨by omega, h.symm⟩
    · rw [he] at h; cases h
  · rintro ⟨ds, hne, hdig, ⟨hs, hlt, hv⟩ | ⟨hs, hle, hv⟩⟩
    · have hd : Prime.isDigits s = true := (isDigits_iff_toList s).2 (by rw [hs]; exact ⟨hne, hdig⟩)
      rw [parse_of_isDigits p hd, toNat!_of_isDigits hd, hs, if_neg (by omega), hv]
    · have hs' : s = "-" ++ String.ofList ds := by
        apply String.toList_inj.1; rw [hs]; simp
      have hd : Prime.isDigits (String.ofList ds) = true :=
        (isDigits_iff_toList _).2 (by simpa using ⟨hne, hdig⟩)
      rw [hs', parse_minus_of_isDigits p hd, toNat!_of_isDigits hd, String.toList_ofList,
        if_neg (by omega), hv]

/-! ### C. totality by typing (used by C17) -/

/-- For every string the prime-field parser either returns a canonical element or a Parsing error:
    no other error kind, no out-of-range value (for `p > 0`). -/
theorem prime_parse_total {p : Nat} (hp : 0 < p) (s : String) :
    (∃ v, Prime.parse p s = .ok v ∧ v < p) ∨ Prime.parse p s = .error .parsing := by
  rcases parse_cases p s with hd | ⟨t, ht, hd⟩ | he
  · rw [parse_of_isDigits p hd]
    split
    · exact Or.inr rfl
    · exact Or.inl ⟨_, rfl, element_lt hp _⟩
  · subst ht
    rw [parse_minus_of_isDigits p hd]
    split
    · exact Or.inr rfl
    · exact Or.inl ⟨_, rfl, fromSigned_lt hp _⟩
  · exact Or.inr he

/-- the only error kind `Prime.parse` ever returns is Parsing -/
theorem prime_parse_error {p : Nat} {s : String} {k : Kind} (h : Prime.parse p s = .error k) :
    k = .parsing := by
  rcases parse_cases p s with hd | ⟨t, ht, hd⟩ | he
  · rw [parse_of_isDigits p hd] at h
    split at h
    · injection h with h; exact h.symm
    · cases h
  · subst ht
    rw [parse_minus_of_isDigits p hd] at h
    split at h
    · injection h with h; exact h.symm
    · cases h
  · rw [he] at h; injection h with h; exact h.symm

/-- a string containing any character other than `-` and the ASCII digits is rejected -/
theorem prime_parse_reject_char {p : Nat} {s : String} {c : Char} (hc : c ∈ s.toList)
    (h1 : c ≠ '-') (h2 : c.isDigit = false) : Prime.parse p s = .error .parsing := by
  cases h : Prime.parse p s with
  | error k => rw [prime_parse_error h]
  | ok v =>
    exfalso
    obtain ⟨ds, _, hdig, ⟨hs, _⟩ | ⟨hs, _⟩⟩ := (prime_parse_ok_iff p s v).1 h
    · rw [hs] at hc
      have := hdig c hc
      rw [h2] at this; cases this
    · rw [hs] at hc
      rcases List.mem_cons.1 hc with e | hc
      · exact h1 e
      · have := hdig c hc
        rw [h2] at this; cases this

/-- a minus sign anywhere but in front is rejected -/
theorem prime_parse_reject_inner_minus {p : Nat} {s : String} (hc : '-' ∈ s.toList.drop 1) :
    Prime.parse p s = .error .parsing := by
  cases h : Prime.parse p s with
  | error k => rw [prime_parse_error h]
  | ok v =>
    exfalso
    obtain ⟨ds, _, hdig, ⟨hs, _⟩ | ⟨hs, _⟩⟩ := (prime_parse_ok_iff p s v).1 h
    · rw [hs] at hc
      have := hdig '-' (List.mem_of_mem_drop hc)
      exact absurd this (by decide)
    · rw [hs] at hc
      have := hdig '-' (by simpa using hc)
      exact absurd this (by decide)

example : Prime.parse 7 "1-2" = .error .parsing := prime_parse_reject_inner_minus (by decide)
example : Prime.parse 7 "--2" = .error .parsing := prime_parse_reject_inner_minus (by decide)

example : (0 : Nat) < 7 := by decide

/-! ### C'. the regex-based parsers: totality by typing and the error kinds they can return

  `Bin.parse`, `UPoly.parse`, `Ext.parse`, `BPoly.parse` are total functions into `Except Kind _`
  (the `partial` engine is only called for its value), so "never panics" holds by typing in the
  model. Whatever the engine returns, the only error kinds that can come out are the following
  (the regex results are treated as unknown values in these proofs). For C17. -/

theorem bin_parse_error_kinds {n m : Nat} {v s : String} {k : Kind}
    (h : Bin.parse n m v s = .error k) :
    k = .inputValue ∨ k = .parsing ∨ k = .inputTooLarge := bin_parse_error h

theorem upoly_parse_error_kinds {α : Type} {R : UPoly.Ring α} {s : String} {k : Kind}
    (h : UPoly.parse R s = .error k) : k = .internal ∨ k = .parsing ∨ k = .conversion :=
  u_parse_error h

theorem ext_parse_error_kinds {p : Nat} {g : List Nat} {s : String} {k : Kind}
    (h : Ext.parse p g s = .error k) : k = .parsing := ext_parse_error h

theorem bpoly_parse_error_kinds {α : Type} {R : BPoly.Ring α} {s : String} {k : Kind}
    (h : BPoly.parse R s = .error k) : k = .internal ∨ k = .parsing ∨ k = .conversion :=
  b_parse_error h

/-! ### D. the binary-field printer

  `Bin.parse` runs the regular-expression engine and cannot be reasoned about; what can be proved
  is that the printer loses no information: `Bin.toStr` is injective on the elements of the field,
  for every variable name `SetVarName` accepts. Hence a correct parser *exists* for each such name;
  that `Bin.parse` is one is `bin_roundtrip_full` below (validated by the correspondence run). -/

/-- the term list of `Bin.toStr` (set bit positions, highest first) determines the value -/
theorem bin_degs_injective {n a b : Nat} (ha : a < 2 ^ (n + 1)) (hb : b < 2 ^ (n + 1))
    (h : (List.range (n + 1)).reverse.filter (fun d => a.testBit d) =
         (List.range (n + 1)).reverse.filter (fun d => b.testBit d)) : a = b :=
  degs_injective ha hb h

/-- String-level injectivity of `Bin.toStr` on values of at most `n+1` bits (field elements have
    at most `n`), for every name accepted by `binfield.SetVarName`: non-empty (after trimming),
    not "0", not "1". No further restriction on the name is needed (it may contain blanks, `+`,
    `^`, digits). -/
theorem bin_toStr_injective {varName : String} (hne : varName ≠ "") (h0 : varName ≠ "0")
    (h1 : varName ≠ "1") {n a b : Nat} (ha : a < 2 ^ (n + 1)) (hb : b < 2 ^ (n + 1))
    (h : Bin.toStr varName n a = Bin.toStr varName n b) : a = b :=
  toStr_injective hne h0 h1 ha hb h

/-- the same for the `toStr` field of the field record, on canonical elements `< 2^n` -/
theorem binOps_toStr_injective {varName : String} (hne : varName ≠ "") (h0 : varName ≠ "0")
    (h1 : varName ≠ "1") {n m a b : Nat} (ha : a < 2 ^ n) (hb : b < 2 ^ n)
    (h : (binOps n m varName).toStr a = (binOps n m varName).toStr b) : a = b :=
  toStr_injective hne h0 h1 (by rw [Nat.pow_succ]; omega) (by rw [Nat.pow_succ]; omega) h

-- non-vacuity / sanity: GF(8), name "a"
example : ("a" : String) ≠ "" ∧ ("a" : String) ≠ "0" ∧ ("a" : String) ≠ "1" ∧ (5 : Nat) < 2 ^ 3 := by
  decide
example : Bin.toStr "a" 3 5 = "a^2 + 1" := by decide
example : Bin.toStr "a" 3 2 = "a" ∧ Bin.toStr "a" 3 0 = "0" ∧ Bin.toStr "a" 3 1 = "1" := by decide
/-- the guard on "1" is necessary: with the name "1" the elements `1` and `a` print alike -/
example : Bin.toStr "1" 3 1 = Bin.toStr "1" 3 2 := by decide

/-- the prime-field printer is injective (all naturals) -/
theorem prime_toStr_injective {p a b : Nat} (h : (primeOps p).toStr a = (primeOps p).toStr b) :
    a = b := by
  have h' : toString a = toString b := h
  simpa using h'

/-! ### the univariate printer over prime fields

  Again only the printer can be analysed: it is injective on canonical polynomials, so the printed
  form determines the polynomial. -/

/-- `UPoly.toStr` over a prime field is injective on canonical coefficient slices, for every
    variable name whose first character is neither a digit nor a blank (in particular every name
    of the validation run, `AdmissibleName`). No hypothesis on `p` or on the size of the
    coefficients is needed. -/
theorem upoly_toStr_injective_prime {p : Nat} {v : String} {x : Char} {vt : List Char}
    (hv : v.toList = x :: vt) (hx1 : x.isDigit = false) (hx2 : x ≠ ' ')
    {f g : UPoly Nat} (hf : UPoly.Canon (primeOps p) f) (hg : UPoly.Canon (primeOps p) g)
    (h : UPoly.toStr (primeOps p) v f = UPoly.toStr (primeOps p) v g) : f = g :=
  utoStr_injective hv hx1 hx2 hf hg h

/-- extension-field elements print through the same function with the fixed name "a"
    (`extOps.toStr`): their printer is injective on canonical elements -/
theorem extOps_toStr_injective {p n : Nat} {g : List Nat} {a b : UPoly Nat}
    (ha : UPoly.Canon (primeOps p) a) (hb : UPoly.Canon (primeOps p) b)
    (h : (extOps p n g).toStr a = (extOps p n g).toStr b) : a = b :=
  upoly_toStr_injective_prime (v := "a") (x := 'a') (vt := []) (by decide) (by decide) (by decide)
    ha hb h

example : (extOps 3 2 [2, 2, 1]).toStr [1, 2] = "2a + 1" := by decide

-- non-vacuity / sanity: 3X^2 + X + 5 over GF(7)
example : ("X" : String).toList = 'X' :: [] ∧ ('X' : Char).isDigit = false ∧ 'X' ≠ ' ' := by decide
example : UPoly.Canon (primeOps 7) [5, 1, 3] := ⟨by simp, fun _ => by decide⟩
example : UPoly.toStr (primeOps 7) "X" [5, 1, 3] = "3X^2 + X + 5" := by decide
example : UPoly.toStr (primeOps 7) "X" [0] = "0" ∧ UPoly.toStr (primeOps 7) "X" [1] = "1" ∧
    UPoly.toStr (primeOps 7) "X" [0, 1] = "X" := by decide
/-- the restriction on the first character is necessary: with the name "2" the constant `22` and
    the polynomial `2·X` both print as "22" -/
example : UPoly.toStr (primeOps 23) "2" [22] = UPoly.toStr (primeOps 23) "2" [0, 2] := by decide

/-! ### the total pieces of the regex-based parsers: exponent and number readers -/

/-- univariate exponents (`strconv.ParseInt`) read back what the printer writes -/
theorem parseIntDigits_roundtrip {d : Nat} (h : d < 2 ^ 63) :
    parseIntDigits (toString d) = some d := parseIntDigits_toString h

/-- bivariate exponents and binary-field exponents (`strconv.ParseUint`) -/
theorem parseUint_roundtrip {d : Nat} (h : d < 2 ^ 64) : parseUint (toString d) = some d :=
  parseUint_toString h

theorem parseExponent_roundtrip {d : Nat} (h : d < 2 ^ 64) :
    BPoly.parseExponent (toString d) = some d := parseExponent_toString h

/-- an absent exponent means 1 -/
theorem parseExponent_absent : BPoly.parseExponent "" = some 1 := parseExponent_empty

/-- `regexp.QuoteMeta` is the identity on names without regular-expression metacharacters, in
    particular on all names of the validation run -/
theorem quoteMeta_plain {s : String}
    (h : ∀ c ∈ s.toList, c ∉ "\\.+*?()|[]{}^$".toList) : Regex.quoteMeta s = s :=
  quoteMeta_eq_self h

/-- `strings.Trim(coef, "()")` removes exactly the parentheses the polynomial printers put around a
    multi-term coefficient, provided the coefficient text itself neither starts nor ends with one -/
theorem trimParens_roundtrip {s : String}
    (h1 : ∀ c ∈ s.toList.head?, (c == '(' || c == ')') = false)
    (h2 : ∀ c ∈ s.toList.getLast?, (c == '(' || c == ')') = false) :
    UPoly.trimParens ("(" ++ s ++ ")") = s := trimParens_wrap h1 h2

/-- … and leaves an unparenthesised coefficient alone -/
theorem trimParens_plain {s : String}
    (h1 : ∀ c ∈ s.toList.head?, (c == '(' || c == ')') = false)
    (h2 : ∀ c ∈ s.toList.getLast?, (c == '(' || c == ')') = false) :
    UPoly.trimParens s = s := trimParens_eq_self h1 h2

example : UPoly.trimParens "(a^2 + 1)" = "a^2 + 1" := by decide

example : Regex.quoteMeta "X" = "X" := by decide
example : Regex.quoteMeta "(ω^2)" = "\\(ω\\^2\\)" := by decide

/-! ### E. the full property (STATED, NOT PROVED)

  `Bin.parse`, `UPoly.parse`, `BPoly.parse` (and through `UPoly.parse` the extension-field element
  parser `Ext.parse`) are executable-only: they call `Regex.compile` / `Regex.findAll`, which are
  `partial def`s and therefore opaque constants for the kernel.  No theorem about their results is
  possible in this model.  The statement below is what the round-trip correspondence run
  (tools/props.py `extra_C15`: print on the implementation, re-parse on implementation and model,
  compare with `Equal`, also after `decorate` and for ` + `-joined pairs) samples; it is recorded
  here so that the claim is explicit.  Proved parts: `C15_partial`. -/

/-- variable names of the validation run (`names_ok` in tools/gen.py): an ASCII letter followed by
    ASCII letters and digits. (The setters accept more: any string that is non-empty after
    trimming; the property speaks of names "that cannot be confused".) -/
def AdmissibleName (s : String) : Prop :=
  ∃ c t, s.toList = c :: t ∧ c.isAlpha = true ∧ ∀ x ∈ t, x.isAlphanum = true

/-- neither name is a prefix of the other, ignoring letter case -/
def Unconfusable (a b : String) : Prop :=
  ¬ (UPoly.strLower a).toList <+: (UPoly.strLower b).toList ∧
  ¬ (UPoly.strLower b).toList <+: (UPoly.strLower a).toList

/-- a coefficient field as returned by a `Define` function: its operations, the predicate
    "canonical element", and the variable name its own elements print (none for prime fields) -/
structure FieldSpec (α : Type) where
  F : FOps α
  Valid : α → Prop
  ownVar : Option String

def primeSpec (p : Nat) : FieldSpec Nat := ⟨primeOps p, fun a => a < p, none⟩

def binSpec (n m : Nat) (v : String) : FieldSpec Nat := ⟨binOps n m v, fun a => a < 2 ^ n, some v⟩

def extSpec (p n : Nat) (g : List Nat) : FieldSpec (UPoly Nat) :=
  ⟨extOps p n g, fun a => UPoly.Canon (primeOps p) a ∧ a.length ≤ n ∧ ∀ c ∈ a, c < p, some "a"⟩

/-- parsing the printed form of an element gives an `Equal` element -/
def ElemRoundTrip {α : Type} (S : FieldSpec α) : Prop :=
  ∀ a, S.Valid a → ∃ b, S.F.parse (S.F.toStr a) = .ok b ∧ S.F.beq a b = true

/-- the documented notational freedoms: `^` optional, `*` optional, blanks around `+` free,
    letter case of the variables free, order of the two variables of a bivariate term free -/
structure Notation where
  caret : Bool := true
  star : Bool := false
  sep : String := " + "
  swapCase : Bool := false
  yFirst : Bool := false

def Notation.ok (N : Notation) : Prop :=
  ∃ k l, N.sep = String.ofList (List.replicate k ' ' ++ '+' :: List.replicate l ' ')

def swapCase (s : String) : String :=
  String.ofList (s.toList.map fun c => if c.isUpper then c.toLower else c.toUpper)

/-- `UPoly.toStr` with notational variations; `uToStrN {} = UPoly.toStr` (`uToStrN_default`) -/
def uToStrN {α : Type} (N : Notation) (F : FOps α) (varName : String) (f : UPoly α) : String :=
  if UPoly.isZero F f then "0"
  else
    let v := if N.swapCase then swapCase varName else varName
    let terms := (UPoly.degrees F f).map fun d =>
      let c := UPoly.coef F f d
      let cs := if !F.isOne c || d == 0 then
          (if F.nTerms c > 1 then "(" ++ F.toStr c ++ ")" else F.toStr c) else ""
      cs ++ (if N.star && cs != "" && d != 0 then "*" else "") ++
        (if d == 1 then v else if d > 1 then v ++ (if N.caret then "^" else "") ++ toString d
         else "")
    N.sep.intercalate terms

theorem uToStrN_default {α : Type} (F : FOps α) (v : String) (f : UPoly α) :
    uToStrN {} F v f = UPoly.toStr F v f := by
  unfold uToStrN UPoly.toStr
  simp

/-- `BPoly.toStr` with notational variations; `bToStrN {} = BPoly.toStr` (`bToStrN_default`) -/
def bToStrN {α : Type} (N : Notation) (R : BPoly.Ring α) (f : BPoly α) : String :=
  let F := R.F
  if f.isEmpty then "0"
  else
    let x := if N.swapCase then swapCase R.varNames.1 else R.varNames.1
    let y := if N.swapCase then swapCase R.varNames.2 else R.varNames.2
    let ex := fun (e : Nat) => if e > 1 then (if N.caret then "^" else "") ++ toString e else ""
    let terms := (BPoly.sortedDegrees R.ord f).map fun d =>
      let c := BPoly.coef F f d
      let cs := if !F.isOne c || (d.1 == 0 && d.2 == 0) then
          (if F.nTerms c > 1 then "(" ++ F.toStr c ++ ")" else F.toStr c) else ""
      let xs := (if d.1 ≥ 1 then x else "") ++ ex d.1
      let ys := (if d.2 ≥ 1 then y else "") ++ ex d.2
      cs ++ (if N.star && cs != "" && (d.1 != 0 || d.2 != 0) then "*" else "") ++
        (if N.yFirst then ys ++ xs else xs ++ ys)
    N.sep.intercalate terms

theorem bToStrN_default {α : Type} (R : BPoly.Ring α) (f : BPoly α) :
    bToStrN {} R f = BPoly.toStr R f := by
  unfold bToStrN BPoly.toStr
  simp [String.append_assoc]

/-- admissible modulus of a univariate quotient ring: monic, canonical, degree ≥ 1 -/
def ModOK {α : Type} (S : FieldSpec α) (mod : Option (UPoly α)) : Prop :=
  ∀ g, mod = some g → UPoly.Canon S.F g ∧ (∀ c ∈ g, S.Valid c) ∧ g.length ≥ 2 ∧
    S.F.isOne (UPoly.lc S.F g) = true

/-- a polynomial of the ring `R`: canonical coefficient slice of canonical elements, reduced -/
def UValid {α : Type} (S : FieldSpec α) (R : UPoly.Ring α) (f : UPoly α) : Prop :=
  UPoly.Canon S.F f ∧ (∀ c ∈ f, S.Valid c) ∧ UPoly.reduceIn R f = some f

def UPolyRoundTrip {α : Type} (S : FieldSpec α) : Prop :=
  ∀ (v : String) (mod : Option (UPoly α)), AdmissibleName v →
    (∀ w, S.ownVar = some w → Unconfusable v w) → ModOK S mod →
    let R : UPoly.Ring α := { F := S.F, varName := v, modulus := mod }
    -- round trip, under every notational variation
    (∀ f, UValid S R f → ∀ N : Notation, N.ok →
      ∃ g, UPoly.parse R (uToStrN N S.F v f) = .ok (some g) ∧ UPoly.equal S.F f g = true) ∧
    -- additivity
    (∀ f₁ f₂, UValid S R f₁ → UValid S R f₂ →
      ∃ g, UPoly.parse R (UPoly.toStr S.F v f₁ ++ " + " ++ UPoly.toStr S.F v f₂) = .ok (some g) ∧
        UPoly.equal S.F g (UPoly.add S.F f₁ f₂) = true)

/-- a polynomial of the bivariate ring `R`: distinct degrees that fit a machine word, nonzero
    canonical coefficients, reduced -/
def BValid {α : Type} (S : FieldSpec α) (R : BPoly.Ring α) (f : BPoly α) : Prop :=
  (f.map (·.1)).Nodup ∧
  (∀ t ∈ f, S.Valid t.2 ∧ S.F.isZero t.2 = false ∧ t.1.1 < 2 ^ 64 ∧ t.1.2 < 2 ^ 64) ∧
  BPoly.reduceIn R f = some f

def BPolyRoundTrip {α : Type} (S : FieldSpec α) : Prop :=
  ∀ (x y : String) (ord : Order) (ideal : Option (List (BPoly α))),
    AdmissibleName x → AdmissibleName y → Unconfusable x y →
    (∀ w, S.ownVar = some w → Unconfusable x w ∧ Unconfusable y w) →
    let R : BPoly.Ring α := { F := S.F, ord := ord, varNames := (x, y), ideal := ideal }
    (∀ f, BValid S R f → ∀ N : Notation, N.ok →
      ∃ g, BPoly.parse R (bToStrN N R f) = .ok (some g) ∧ BPoly.equal S.F f g = true) ∧
    (∀ f₁ f₂, BValid S R f₁ → BValid S R f₂ →
      ∃ g, BPoly.parse R (BPoly.toStr R f₁ ++ " + " ++ BPoly.toStr R f₂) = .ok (some g) ∧
        BPoly.equal S.F g (BPoly.add S.F f₁ f₂) = true)

/-- everything C15 says about one coefficient field -/
def FieldRoundTrip {α : Type} (S : FieldSpec α) : Prop :=
  ElemRoundTrip S ∧ UPolyRoundTrip S ∧ BPolyRoundTrip S

/-- binary-field element round trip (the part of `C15_full` that `bin_toStr_injective` supports) -/
def bin_roundtrip_full : Prop :=
  ∀ (q n m : Nat) (v : String), Define.bin Gen.dbText q = .ok (.bin n m) → AdmissibleName v →
    ∀ a, a < 2 ^ n → Bin.parse n m v (Bin.toStr v n a) = .ok a

/-- C15 in full, over every field any `Define` function of the model returns.
    NOT PROVED (regex-engine parsers are executable-only); validated by `extra_C15`. -/
def C15_full : Prop :=
  (∀ p, Define.prime p = .ok (.prime p) → FieldRoundTrip (primeSpec p)) ∧
  (∀ q n m v, Define.bin Gen.dbText q = .ok (.bin n m) → AdmissibleName v →
    FieldRoundTrip (binSpec n m v)) ∧
  (∀ q p n g, Define.ext Gen.dbText q = .ok (.ext p n g) → FieldRoundTrip (extSpec p n g))

/-- what `Prime.define` guarantees about an accepted cardinality -/
theorem define_prime_bound {p : Nat} (h : Define.prime p = .ok (.prime p)) : p - 1 < 2 ^ 32 := by
  unfold Define.prime Prime.define at h
  split at h
  · cases h
  · split at h
    · cases h
    · rename_i h2
      have : (1 <<< (uintSize / 2) : Nat) = 2 ^ 32 := by decide
      rw [this] at h2
      omega

/-- PROVED PART of `C15_full`: the element round trip of every prime field `primefield.Define`
    returns. Missing relative to `C15_full`: the element round trip of binary and extension fields
    (for binary fields only printer injectivity `bin_toStr_injective` is proved; for univariate
    polynomials over prime fields only printer injectivity `upoly_toStr_injective_prime`) and both
    polynomial round trips, additivity and notation-insensitivity over every field — all of which
    go through the `partial` regex engine. -/
theorem C15_partial : ∀ p, Define.prime p = .ok (.prime p) → ElemRoundTrip (primeSpec p) := by
  intro p h a ha
  exact prime_roundtrip_beq (define_prime_bound h) ha

/-- (local) decidable equality of results, for the sanity evaluations below -/
private instance {ε α : Type} [DecidableEq ε] [DecidableEq α] : DecidableEq (Except ε α)
  | .ok a, .ok b =>
    if h : a = b then isTrue (by rw [h]) else isFalse (fun h' => by injection h' with h'; exact h h')
  | .error a, .error b =>
    if h : a = b then isTrue (by rw [h]) else isFalse (fun h' => by injection h' with h'; exact h h')
  | .ok _, .error _ => isFalse (fun h => by cases h)
  | .error _, .ok _ => isFalse (fun h => by cases h)

/-- every name of the validation run satisfies the hypothesis of `upoly_toStr_injective_prime` -/
theorem upoly_toStr_injective_admissible {p : Nat} {v : String} (hv : AdmissibleName v)
    {f g : UPoly Nat} (hf : UPoly.Canon (primeOps p) f) (hg : UPoly.Canon (primeOps p) g)
    (h : UPoly.toStr (primeOps p) v f = UPoly.toStr (primeOps p) v g) : f = g := by
  obtain ⟨c, t, hl, hc, _⟩ := hv
  exact upoly_toStr_injective_prime hl (isAlpha_not_digit hc).1 (isAlpha_not_digit hc).2 hf hg h

/-- … and of `bin_toStr_injective` -/
theorem bin_toStr_injective_admissible {v : String} (hv : AdmissibleName v) {n a b : Nat}
    (ha : a < 2 ^ (n + 1)) (hb : b < 2 ^ (n + 1)) (h : Bin.toStr v n a = Bin.toStr v n b) :
    a = b := by
  obtain ⟨c, t, hl, hc, _⟩ := hv
  have hne : ∀ w : String, (∀ y ∈ w.toList.head?, y.isAlpha = false) → v ≠ w := by
    intro w hw e
    rw [e] at hl
    have := hw c (by rw [hl]; rfl)
    rw [hc] at this; cases this
  exact bin_toStr_injective (hne "" (by simp)) (hne "0" (by decide)) (hne "1" (by decide)) ha hb h

-- non-vacuity: 7 is accepted by `Define.prime` (evaluates the trial-division factoriser)
example : Define.prime 7 = .ok (.prime 7) := by decide +kernel
example : Prime.parse 7 (toString 12) = .ok 5 := by rw [prime_parse_nat (by decide)]; rfl
example : Prime.parse 7 ("-" ++ toString 1) = .ok 6 := by
  rw [prime_parse_neg (by decide) (by decide)]; decide +kernel
-- the extreme values of `strconv.ParseInt` / `ParseUint`
example : Prime.parse 7 ("-" ++ toString (2 ^ 63)) = .ok 6 := by
  rw [prime_parse_neg (by decide) (by decide)]; decide +kernel
example : Prime.parse 7 ("-" ++ toString (2 ^ 63 + 1)) = .error .parsing :=
  prime_parse_neg_overflow (by decide)
example : Prime.parse 7 (toString (2 ^ 64 - 1)) = .ok 1 := by
  rw [prime_parse_nat (by decide)]; decide +kernel
example : Prime.parse 7 (toString (2 ^ 64)) = .error .parsing := prime_parse_nat_overflow (by decide)
-- Lean's `toNat!` accepts `_` separators, Go's `[0-9]+` does not: rejected by `isDigits`
example : Prime.parse 7 "1_0" = .error .parsing :=
  prime_parse_reject_char (c := '_') (by decide) (by decide) (by decide)
example : Prime.parse 7 "+1" = .error .parsing :=
  prime_parse_reject_char (c := '+') (by decide) (by decide) (by decide)
example : Prime.parse 7 " 1" = .error .parsing :=
  prime_parse_reject_char (c := ' ') (by decide) (by decide) (by decide)
example : AdmissibleName "t1" := ⟨'t', ['1'], by decide, by decide, by decide⟩
example : Unconfusable "X" "a" := by unfold Unconfusable; decide
example : ¬ Unconfusable "A" "a" := by unfold Unconfusable; decide
example : ({} : Notation).ok := ⟨1, 1, by decide⟩

end Algobra.C15
