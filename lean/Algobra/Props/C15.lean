/-
  Props/C15.lean — property C15 (printing and parsing are mutually inverse): the part a theorem
  can carry.

  * prime-field elements: the parser `Prime.parse` is written directly in the model (the Go pattern
    `(-)?([0-9]+)` with the full-match check accepts exactly an optional minus followed by decimal
    digits; tie `GenTies.primeElemPattern_eq`), so the round trip is a theorem (`prime_roundtrip`),
    as are the signed reading, the exact accepted language and totality (for C17).
  * binary-field elements / univariate / bivariate polynomials: the parsers `Bin.parse`,
    `UPoly.parse`, `BPoly.parse` run the regular-expression engine `Algobra.Regex` (`partial def`s,
    opaque to the kernel) — nothing can be proved about their results.  For these the printers are
    analysed (`bin_degs_injective`, …) and the full property is stated as `C15_full`; it is
    validated by the round-trip correspondence run (tools/props.py `extra_C15`), not proved.
-/
import Algobra.Proofs.Strings
import Algobra.Model.Ext
import Algobra.Model.BPoly

namespace Algobra.C15
open Algobra Algobra.Strings

/-! ### B. prime-field elements -/

/-- Round trip: parsing the printed form of a canonical element `a < p` of a prime field whose
    characteristic fits a machine word returns `a`. (`primefield.Define` guarantees
    `p - 1 < 2^32`, a fortiori `p ≤ 2^64`.) -/
theorem prime_roundtrip {p a : Nat} (hp : p ≤ 2 ^ 64) (ha : a < p) :
    Prime.parse p ((primeOps p).toStr a) = .ok a := by
  show Prime.parse p (toString a) = .ok a
  rw [parse_of_isDigits p (isDigits_toString a), toNat!_toString]
  have h1 : ¬ a ≥ 2 ^ 64 := by omega
  rw [if_neg h1]
  unfold Prime.element
  rw [Nat.mod_eq_of_lt ha]

/-- the same under the guard `Prime.define` really checks -/
theorem prime_roundtrip' {p a : Nat} (hp : p - 1 < 2 ^ 32) (ha : a < p) :
    (primeOps p).parse ((primeOps p).toStr a) = .ok a :=
  prime_roundtrip (by omega) ha

/-- … and the result is `Equal` to the original -/
theorem prime_roundtrip_beq {p a : Nat} (hp : p - 1 < 2 ^ 32) (ha : a < p) :
    ∃ b, (primeOps p).parse ((primeOps p).toStr a) = .ok b ∧ (primeOps p).beq a b = true :=
  ⟨a, prime_roundtrip' hp ha, by show (a == a) = true; simp⟩

-- non-vacuity / sanity
example : (65537 : Nat) - 1 < 2 ^ 32 ∧ (65536 : Nat) < 65537 := by decide
example : Prime.parse 7 ((primeOps 7).toStr 5) = .ok 5 := by
  rw [prime_roundtrip (by decide) (by decide)]

/-- The printed form of an element round-trips through the wire decoder too (`enc`/`dec`). -/
theorem prime_enc_dec (p a : Nat) : (primeOps p).dec ((primeOps p).enc a) = some a := by
  show (if Prime.isDigits (toString a) then some (toString a).toNat! else none) = some a
  rw [if_pos (isDigits_toString a), toNat!_toString]

/-- Unsigned reading of an arbitrary decimal numeral (leading zeros allowed): `ElementFromUnsigned`
    of its value. -/
theorem prime_parse_nat {p a : Nat} (ha : a < 2 ^ 64) :
    Prime.parse p (toString a) = .ok (Prime.element p a) := by
  rw [parse_of_isDigits p (isDigits_toString a), toNat!_toString]
  have h1 : ¬ a ≥ 2 ^ 64 := by omega
  rw [if_neg h1]

/-- `strconv.ParseUint` range error -/
theorem prime_parse_nat_overflow {p a : Nat} (ha : 2 ^ 64 ≤ a) :
    Prime.parse p (toString a) = .error .parsing := by
  rw [parse_of_isDigits p (isDigits_toString a), toNat!_toString, if_pos ha]

/-- Signed reading: `-a` is `ElementFromSigned(-a)` for every `a` in the range of a Go `int`. -/
theorem prime_parse_neg {p a : Nat} (_h0 : 0 < a) (ha : a ≤ 2 ^ 63) :
    Prime.parse p ("-" ++ toString a) = .ok (Prime.fromSigned p (-(a : Int))) := by
  rw [parse_minus_of_isDigits p (isDigits_toString a), toNat!_toString]
  have h1 : ¬ a > 2 ^ 63 := by omega
  rw [if_neg h1]
  rfl

/-- `strconv.ParseInt` range error -/
theorem prime_parse_neg_overflow {p a : Nat} (ha : 2 ^ 63 < a) :
    Prime.parse p ("-" ++ toString a) = .error .parsing := by
  rw [parse_minus_of_isDigits p (isDigits_toString a), toNat!_toString, if_pos ha]

example : (0 : Nat) < 3 ∧ (3 : Nat) ≤ 2 ^ 63 := by decide
example : (0 : Nat) < 2 ^ 63 ∧ (2 : Nat) ^ 63 ≤ 2 ^ 63 := by decide

/-- rejection of ill-formed input -/
theorem prime_parse_empty (p : Nat) : Prime.parse p "" = .error .parsing := by
  rcases parse_cases p "" with h | ⟨t, ht, _⟩ | h
  · have := ((isDigits_iff "").1 h).1; exact absurd rfl this
  · have := congrArg String.toList ht
    simp at this
  · exact h

theorem prime_parse_abc (p : Nat) : Prime.parse p "abc" = .error .parsing := by
  rcases parse_cases p "abc" with h | ⟨t, ht, _⟩ | h
  · have := ((isDigits_iff "abc").1 h).2 'a' (by decide)
    exact absurd this (by decide)
  · have := congrArg String.toList ht
    simp at this
  · exact h

/-! ### the accepted language, exactly -/

/-- `Prime.parse` succeeds exactly on `digits` (value `< 2^64`) and `-digits` (value `≤ 2^63`),
    where `digits` is a non-empty list of ASCII digits — the language of the Go pattern
    `(-)?([0-9]+)` under the full-match check followed by `ParseUint`/`ParseInt`. The value is
    `ElementFromUnsigned` resp. `ElementFromSigned` of the numeral. -/
theorem prime_parse_ok_iff (p : Nat) (s : String) (v : Nat) :
    Prime.parse p s = .ok v ↔
      ∃ ds : List Char, ds ≠ [] ∧ (∀ c ∈ ds, c.isDigit = true) ∧
        ((s.toList = ds ∧ Nat.ofDigitChars 10 ds 0 < 2 ^ 64 ∧
            v = Prime.element p (Nat.ofDigitChars 10 ds 0)) ∨
         (s.toList = '-' :: ds ∧ Nat.ofDigitChars 10 ds 0 ≤ 2 ^ 63 ∧
            v = Prime.fromSigned p (-(Int.ofNat (Nat.ofDigitChars 10 ds 0))))) := by
  constructor
  · intro h
    rcases parse_cases p s with hd | ⟨t, ht, hd⟩ | he
    · rw [parse_of_isDigits p hd, toNat!_of_isDigits hd] at h
      obtain ⟨h1, h2⟩ := (isDigits_iff_toList s).1 hd
      refine ⟨s.toList, h1, h2, Or.inl ⟨rfl, ?_⟩⟩
      split at h
      · cases h
      · injection h with h; exact ⟨by omega, h.symm⟩
    · subst ht
      rw [parse_minus_of_isDigits p hd, toNat!_of_isDigits hd] at h
      obtain ⟨h1, h2⟩ := (isDigits_iff_toList t).1 hd
      refine ⟨t.toList, h1, h2, Or.inr ⟨by simp, ?_⟩⟩
      split at h
      · cases h
      · injection h with h; exact ⟨by omega, h.symm⟩
    · rw [he] at h; cases h
  · rintro ⟨ds, hne, hdig, ⟨hs, hlt, hv⟩ | ⟨hs, hle, hv⟩⟩
    · have hd : Prime.isDigits s = true := (isDigits_iff_toList s).2 (by rw [hs]; exact ⟨hne, hdig⟩)
      rw [parse_of_isDigits p hd, toNat!_of_isDigits hd, hs, if_neg (by omega), hv]
    · have hs' : s = "-" ++ String.ofList ds := by
        apply String.toList_inj.1; rw [hs]; simp
      have hd : Prime.isDigits (String.ofList ds) = true :=
        (isDigits_iff_toList _).2 (by simpa using ⟨hne, hdig⟩)
      rw [hs', parse_minus_of_isDigits p hd, toNat!_of_isDigits hd, String.toList_ofList,
        if_neg (by omega), hv]

/-! ### C. totality by typing (used by C17) -/

/-- For every string the prime-field parser either returns a canonical element or a Parsing error:
    no other error kind, no out-of-range value (for `p > 0`). -/
theorem prime_parse_total {p : Nat} (hp : 0 < p) (s : String) :
    (∃ v, Prime.parse p s = .ok v ∧ v < p) ∨ Prime.parse p s = .error .parsing := by
  rcases parse_cases p s with hd | ⟨t, ht, hd⟩ | he
  · rw [parse_of_isDigits p hd]
    split
    · exact Or.inr rfl
    · exact Or.inl ⟨_, rfl, element_lt hp _⟩
  · subst ht
    rw [parse_minus_of_isDigits p hd]
    split
    · exact Or.inr rfl
    · exact Or.inl ⟨_, rfl, fromSigned_lt hp _⟩
  · exact Or.inr he

/-- the only error kind `Prime.parse` ever returns is Parsing -/
theorem prime_parse_error {p : Nat} {s : String} {k : Kind} (h : Prime.parse p s = .error k) :
    k = .parsing := by
  rcases parse_cases p s with hd | ⟨t, ht, hd⟩ | he
  · rw [parse_of_isDigits p hd] at h
    split at h
    · injection h with h; exact h.symm
    · cases h
  · subst ht
    rw [parse_minus_of_isDigits p hd] at h
    split at h
    · injection h with h; exact h.symm
    · cases h
  · rw [he] at h; injection h with h; exact h.symm

example : (0 : Nat) < 7 := by decide

end Algobra.C15
