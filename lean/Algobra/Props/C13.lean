/-
  Props/C13.lean — property C13: "bivariate quotient rings compute with normal forms"
  (Model/BPoly.lean: `Ring`, `reduceIn`, `times`, `powLoop`, `pow`, `ofMap`, `quotientGens`; the
  model of /repo/bivariate/ring.go `Quotient`, constructors, polynomial.go `reduce`, arithmetic.go
  `Times`/`Mult`/`Pow`).

  What a theorem about the model can carry:
   C13-1  `reduce` returns a remainder `r` of the division by the stored generators:
          `f − r ∈ ⟨gs⟩` and no exponent of `r` is divisible by a leading exponent of `gs`
          (`reduceIn_spec`; from the division theorem of Proofs/BPolyDiv.lean, first as the named
          hypotheses `DivSpec`/`RemSpec` bundled in `QuotCtx`, then discharged: `quotCtx_runSafe`);
   C13-2  `Times`/`Mult`, `Pow` and the constructors are `reduce` of the exact product / power /
          coefficient map, the only error is the exponent overflow of `multNoReduce`
          (`times_def`, `pow_def`, `ofMap_def`, `results_are_reduced`);
   C13-3  the value of an expression computed in the quotient ring is a normal form congruent
          modulo `⟨gs⟩` to the plain expression (`evalQ_spec`); normal forms are unique when `gs`
          is a Gröbner basis (`nf_unique_of_groebner`, proved from the DEFINITION of a Gröbner
          basis); that the generators stored by `Quotient(id)` are one needs Buchberger's criterion:
          `nf_unique_full`.
  Proofs are in Proofs/Groebner.lean.
-/
import Algobra.Props.C11
import Mathlib.Data.ZMod.Basic

namespace Algobra
namespace C13

open BPoly

variable {α : Type}

/-! ### C13-2 : the operations are `reduce` of the exact result (by definition) -/

theorem times_def (R : BPoly.Ring α) (f g : BPoly α) :
    times R f g = match mulNoReduce R.F f g with
      | none => .error .overflow
      | some h => .ok (reduceIn R h) := rfl

/-- `Times` fails exactly when `multNoReduce` reports an exponent overflow, with kind `Overflow` -/
theorem times_error_iff {R : BPoly.Ring α} {f g : BPoly α} {k : Kind} :
    times R f g = .error k ↔ mulNoReduce R.F f g = none ∧ k = .overflow := BPoly.times_error_iff

theorem times_ok_iff {R : BPoly.Ring α} {f g : BPoly α} {r : Option (BPoly α)} :
    times R f g = .ok r ↔ ∃ h, mulNoReduce R.F f g = some h ∧ reduceIn R h = r := BPoly.times_ok_iff

/-- when does `multNoReduce` overflow: exactly when some pair of terms has an exponent sum that
    does not fit a machine word (Proofs/BPolyRefine.lean) -/
theorem mulNoReduce_none_iff {F : FOps α} {K : Type} [Field K] (L : Lawful F K) {f g : BPoly α}
    (hf : WF L f) (hg : WF L g) (bf : Bounded f) (bg : Bounded g) :
    mulNoReduce F f g = none ↔ Ovf f g := BPoly.mulNoReduce_none_iff L hf hg bf bg

theorem ofMap_def (R : BPoly.Ring α) (m : List (Deg × α)) :
    ofMap R m = reduceIn R (m.foldl (fun acc (d, c) => if R.F.isZero c then acc else put acc d c) []) :=
  rfl

theorem pow_def (R : BPoly.Ring α) (f : BPoly α) (n : Nat) :
    BPoly.pow R f n = match reduceIn R [((0, 0), R.F.one)] with
      | some o => BPoly.powLoop R 70 n o f
      | none => .ok none := rfl

/-- one round of square-and-multiply: every multiplication is a `times` (hence reduced) -/
theorem powLoop_def (R : BPoly.Ring α) (fuel n : Nat) (out g : BPoly α) :
    BPoly.powLoop R (fuel + 1) n out g =
      if n = 0 then .ok (some out)
      else match (if n % 2 = 1 then times R out g else .ok (some out)) with
        | .error k => .error k
        | .ok none => .ok none
        | .ok (some o) =>
          if n / 2 = 0 then .ok (some o)
          else match times R g g with
            | .error k => .error k
            | .ok none => .ok none
            | .ok (some g2) => BPoly.powLoop R fuel (n / 2) o g2 := rfl

/-- the only error of `Pow` is `Overflow` -/
theorem pow_error {R : BPoly.Ring α} {f : BPoly α} {n : Nat} {k : Kind} (h : BPoly.pow R f n = .error k) :
    k = .overflow := BPoly.pow_error h

/-- every value returned by a constructor, `Times`/`Mult` or `Pow` is an output of `reduce`
    (`IsRed R r := ∃ h, reduceIn R h = some r`), hence a normal form in the sense of C13-1 -/
theorem results_are_reduced {R : BPoly.Ring α} {f g r : BPoly α} {n : Nat} {m : List (Deg × α)} :
    (times R f g = .ok (some r) → IsRed R r) ∧ (BPoly.pow R f n = .ok (some r) → IsRed R r) ∧
    (ofMap R m = some r → IsRed R r) :=
  ⟨times_isRed, pow_isRed, ofMap_isRed⟩

/-- in a ring without ideal `reduce` is the identity -/
theorem reduceIn_no_ideal {R : BPoly.Ring α} (hR : R.ideal = none) (f : BPoly α) :
    reduceIn R f = some f := by
  unfold reduceIn; rw [hR]

/-- in a quotient ring a successful `reduce` is a terminated run of the division loop by the
    stored generators -/
theorem reduceIn_run {R : BPoly.Ring α} {gs : List (BPoly α)} (hR : R.ideal = some gs) {f r : BPoly α}
    (h : reduceIn R f = some r) :
    ∃ qs, quoRemLoop R.F R.ord none gs divFuel f (gs.map fun _ => []) [] = some (qs, r) :=
  BPoly.reduceIn_run hR h

/-! ### C13-1 : `reduce` returns a normal form of the same class -/

section Quot
variable {K : Type} [Field K] {R : BPoly.Ring α} {L : Lawful R.F K}
  {Safe : Option Nat → List (BPoly α) → Nat → BPoly α → Prop} {gs : List (BPoly α)}

/-- `QuotCtx R L Safe gs` bundles: `R.ideal = some gs`, the generators are well-formed, and the two
    division hypotheses `hdiv : DivSpec L R.ord Safe`, `hrem : RemSpec L R.ord Safe` -/
theorem reduceIn_spec (Q : QuotCtx R L Safe gs) {f r : BPoly α} (hf : WF L f)
    (hs : Safe none gs divFuel f) (h : reduceIn R f = some r) :
    WF L r ∧ (Bounded f → Bounded r) ∧
    toMv L f - toMv L r ∈ Ideal.span ((toMv L) '' {g | g ∈ gs}) ∧
    (∀ d ∈ keys r, ∀ g ∈ gs, subDegs d (ld R.ord g) = none) :=
  Q.reduceIn_spec hf hs h

/-- the hypotheses are theorems (Proofs/BPolyDiv.lean) for the guard `C11.RunSafe` -/
theorem quotCtx_runSafe (hR : R.ideal = some gs) (hw : ∀ g ∈ gs, WF L g) :
    QuotCtx R L (C11.RunSafe R.F R.ord) gs :=
  ⟨hR, hw, C11.divSpec_holds L R.ord, C11.remSpec_holds L R.ord⟩

/-- C13-1 with the division hypotheses discharged -/
theorem reduceIn_spec_runOK (hR : R.ideal = some gs) (hw : ∀ g ∈ gs, WF L g) {f r : BPoly α}
    (hf : WF L f) (hadm : Order.Admissible R.ord) (hno : ∀ d ∈ keys f, Order.NoOverflow R.ord d)
    (hrun : RunOK R.F R.ord none gs divFuel f) (h : reduceIn R f = some r) :
    WF L r ∧ (Bounded f → Bounded r) ∧
    toMv L f - toMv L r ∈ Ideal.span ((toMv L) '' {g | g ∈ gs}) ∧
    (∀ d ∈ keys r, ∀ g ∈ gs, subDegs d (ld R.ord g) = none) :=
  (quotCtx_runSafe hR hw).reduceIn_spec hf ⟨hadm, hno, hrun⟩ h

/-- for graded orders the guard is static: exponents and weighted degrees are machine words -/
theorem runSafe_of_graded (hgr : Graded R.ord)
    (hgs : ∀ g ∈ gs, ∀ d ∈ keys g, Order.NoOverflow R.ord d) {f : BPoly α}
    (hno : ∀ d ∈ keys f, Order.NoOverflow R.ord d) : C11.RunSafe R.F R.ord none gs divFuel f :=
  ⟨hgr.admissible, hno, RunOK_of_graded hgr hgs divFuel f hno⟩

/-! ### C13-3 : expressions -/

/-- `Times`/`Mult` in the quotient: a normal form in the class of the product -/
theorem times_spec (Q : QuotCtx R L Safe gs) {x y r : BPoly α} (hx : WF L x) (hy : WF L y)
    (by' : Bounded y) (hs : TimesSafe R Safe gs x y) (h : times R x y = .ok (some r)) :
    GoodNF L gs r ∧ cls L gs (toMv L r) = cls L gs (toMv L x) * cls L gs (toMv L y) :=
  Q.times_spec hx hy by' hs h

/-- `Pow` in the quotient: a normal form in the class of the power -/
theorem pow_spec (Q : QuotCtx R L Safe gs) {x r : BPoly α} {n : Nat} (hx : WF L x)
    (bx : Bounded x) (hs1 : Safe none gs divFuel [((0, 0), R.F.one)])
    (hs : ∀ o', reduceIn R [((0, 0), R.F.one)] = some o' → PowSafe R Safe gs 70 n o' x)
    (h : BPoly.pow R x n = .ok (some r)) :
    GoodNF L gs r ∧ cls L gs (toMv L r) = cls L gs (toMv L x) ^ n :=
  Q.pow_spec hx bx hs1 hs h

/-- the expression theorem (as C07 for univariate quotient rings).  `evalQ R e` is the value the
    library computes (`leaf` = a constructor, embedding with reduction; `add`/`sub` = `Plus`/`Minus`
    without reduction; `mul` = `Times`; `pow` = `Pow`), `evalP L e` the same expression in `K[X,Y]`,
    `e.Ok R Safe gs L` : leaves well-formed with word-size exponents and the guard `Safe` for every
    reduction made during the evaluation.  `cls L gs p` is the class of `p` in `K[X,Y] ⧸ ⟨gs⟩`,
    `GoodNF L gs r := WF L r ∧ Bounded r ∧ IsNF R.ord gs r`. -/
theorem evalQ_spec (Q : QuotCtx R L Safe gs) (e : QExpr α) (he : e.Ok R Safe gs L)
    {r : BPoly α} (h : evalQ R e = some r) :
    GoodNF L gs r ∧ cls L gs (toMv L r) = cls L gs (evalP L e) :=
  Q.evalQ_spec e he h

/-- … in terms of ideal membership -/
theorem evalQ_congr (Q : QuotCtx R L Safe gs) (e : QExpr α) (he : e.Ok R Safe gs L)
    {r : BPoly α} (h : evalQ R e = some r) :
    toMv L r - evalP L e ∈ Ideal.span ((toMv L) '' {g | g ∈ gs}) ∧
    (∀ d ∈ keys r, ∀ g ∈ gs, subDegs d (ld R.ord g) = none) :=
  ⟨(cls_eq_iff L gs _ _).1 (Q.evalQ_spec e he h).2, (Q.evalQ_spec e he h).1.2.2⟩

/-- two expressions whose plain values are congruent yield congruent normal forms -/
theorem evalQ_same_class (Q : QuotCtx R L Safe gs) (e1 e2 : QExpr α) (h1 : e1.Ok R Safe gs L)
    (h2 : e2.Ok R Safe gs L) {r1 r2 : BPoly α} (hr1 : evalQ R e1 = some r1)
    (hr2 : evalQ R e2 = some r2) :
    toMv L r1 - toMv L r2 ∈ Ideal.span ((toMv L) '' {g | g ∈ gs}) ↔
      evalP L e1 - evalP L e2 ∈ Ideal.span ((toMv L) '' {g | g ∈ gs}) := by
  have e1' := (Q.evalQ_spec e1 h1 hr1).2
  have e2' := (Q.evalQ_spec e2 h2 hr2).2
  show _ ∈ spanOf L gs ↔ _ ∈ spanOf L gs
  rw [← cls_eq_iff L gs, ← cls_eq_iff L gs, e1', e2']

/-! #### uniqueness of normal forms -/

/-- normal forms are unique modulo a Gröbner basis (`C11.IsGroebnerBasis`: the leading exponent of
    every nonzero member of the ideal is divisible by a leading exponent of `gs`): two well-formed
    normal forms in the same class denote the same polynomial (and are `Equal`) -/
theorem nf_unique_of_groebner {F : FOps α} (L : Lawful F K) {o : Order} {gs : List (BPoly α)}
    (hG : C11.IsGroebnerBasis L o gs) (hadm : Order.Admissible o) {r1 r2 : BPoly α}
    (w1 : WF L r1) (w2 : WF L r2) (n1 : IsNF o gs r1) (n2 : IsNF o gs r2)
    (o1 : ∀ d ∈ keys r1, Order.NoOverflow o d) (o2 : ∀ d ∈ keys r2, Order.NoOverflow o d)
    (h : toMv L r1 - toMv L r2 ∈ Ideal.span ((toMv L) '' {g | g ∈ gs})) :
    toMv L r1 = toMv L r2 ∧ equal F r1 r2 = true := by
  have wd := WF_sub L w1 w2.cv
  have td := toMv_sub L w1 w2.cv
  have key : toMv L r1 = toMv L r2 := by
    by_contra hne
    have hd : BPoly.sub F r1 r2 ≠ [] := by
      intro h0
      rw [h0, toMv_nil] at td
      exact hne (sub_eq_zero.1 td.symm)
    obtain ⟨g, hg, hdiv⟩ := hG _ wd hd (by rw [td]; exact h)
    have hno : ∀ d ∈ keys (BPoly.sub F r1 r2), Order.NoOverflow o d :=
      KeysIn_sub (P := fun d => Order.NoOverflow o d) o1 o2
    have hld := ld_mem_keys hadm hd hno
    exact hdiv (KeysIn_sub n1 n2 _ hld g hg)
  exact ⟨key, (equal_iff L w1 w2).2 key⟩

/-- NOT PROVED (needs Buchberger's criterion, `C11.buchberger_criterion_full`): in a quotient ring
    whose generators were produced by `Quotient(id)` (= `quotientGens`: `GroebnerBasis` followed by
    `ReduceBasis`), two polynomials are congruent modulo the ideal iff `reduce` gives them the same
    normal form.  What is missing is exactly that the list stored by `Quotient` IS a Gröbner basis
    of `⟨id.gens⟩`; given that, `nf_unique_of_groebner` and `reduceIn_spec` give the statement. -/
def nf_unique_full (L : Lawful R.F K) : Prop :=
  ∀ (id : BPoly.Ideal α) (gs : List (BPoly α)), Order.Admissible R.ord →
    (∀ g ∈ id.gens, WF L g ∧ g ≠ [] ∧ Bounded g) →
    quotientGens R.F R.ord id = some gs → R.ideal = some gs →
    ∀ f g r1 r2 : BPoly α, WF L f → WF L g →
      C11.RunSafe R.F R.ord none gs divFuel f → C11.RunSafe R.F R.ord none gs divFuel g →
      reduceIn R f = some r1 → reduceIn R g = some r2 →
      (toMv L f - toMv L g ∈ Ideal.span ((toMv L) '' {x | x ∈ id.gens}) ↔ toMv L r1 = toMv L r2)

/-- the part of `nf_unique_full` that does not need the criterion: GIVEN that the stored list is a
    Gröbner basis, congruent inputs have the same normal form, and conversely -/
theorem nf_unique_partial (hR : R.ideal = some gs) (hw : ∀ g ∈ gs, WF L g)
    (hG : C11.IsGroebnerBasis L R.ord gs) {f g r1 r2 : BPoly α} (hf : WF L f) (hg : WF L g)
    (sf : C11.RunSafe R.F R.ord none gs divFuel f) (sg : C11.RunSafe R.F R.ord none gs divFuel g)
    (h1 : reduceIn R f = some r1) (h2 : reduceIn R g = some r2) :
    toMv L f - toMv L g ∈ Ideal.span ((toMv L) '' {x | x ∈ gs}) ↔ toMv L r1 = toMv L r2 := by
  have Q := quotCtx_runSafe (L := L) hR hw
  obtain ⟨w1, -, m1, n1⟩ := Q.reduceIn_spec hf sf h1
  obtain ⟨w2, -, m2, n2⟩ := Q.reduceIn_spec hg sg h2
  obtain ⟨q1, hq1⟩ := BPoly.reduceIn_run hR h1
  obtain ⟨q2, hq2⟩ := BPoly.reduceIn_run hR h2
  have o1 := fun d hd => ((quoRemLoop_init_spec L sf.1 (fun x hx => (hw x hx).cv) hf sf.2.1 sf.2.2
    hq1).2.2.2.2.1 d hd).1
  have o2 := fun d hd => ((quoRemLoop_init_spec L sg.1 (fun x hx => (hw x hx).cv) hg sg.2.1 sg.2.2
    hq2).2.2.2.2.1 d hd).1
  constructor
  · intro h
    refine (nf_unique_of_groebner L hG sf.1 w1 w2 n1 n2 o1 o2 ?_).1
    have : toMv L r1 - toMv L r2 = (toMv L f - toMv L g) - (toMv L f - toMv L r1)
        + (toMv L g - toMv L r2) := by ring
    rw [this]
    exact Ideal.add_mem _ (Ideal.sub_mem _ h m1) m2
  · intro h
    have : toMv L f - toMv L g = (toMv L f - toMv L r1) - (toMv L g - toMv L r2) := by
      rw [h]; ring
    rw [this]
    exact Ideal.sub_mem _ m1 m2

end Quot

/-! ### non-vacuity and sanity evaluations: `GF(3)[X,Y]/⟨Y² + 2, X + 2Y⟩`, Lex -/

section Examples
open C11

/-- the quotient ring whose generators are the reduced Gröbner basis computed in C12's examples -/
def RQ : BPoly.Ring Nat := { F := F3, ord := lexO, varNames := ("X", "Y"), ideal := some [g2, g3] }

/-- `Quotient(id)` for `id = ⟨XY + 2, Y² + 2⟩` stores `[g2, g3]` -/
example : quotientGens F3 lexO { gens := [g1, g2] } = some [g2, g3] := by decide +kernel

/-- `reduce (X²Y + 1) = Y + 1` : `X ≡ Y`, `Y² ≡ 1`, so `X²Y ≡ Y³ ≡ Y` -/
example : reduceIn RQ [((2, 1), 1), ((0, 0), 1)] = some [((0, 1), 1), ((0, 0), 1)] := by
  decide +kernel

/-- `Times`: `(X + 1)·(Y + 2) ≡ (Y + 1)(Y + 2) = Y² + 2 ≡ 0` -/
example : times RQ [((1, 0), 1), ((0, 0), 1)] [((0, 1), 1), ((0, 0), 2)] = .ok (some []) := by
  decide +kernel

/-- `Pow`: `X^5 ≡ Y^5 ≡ Y` -/
example : BPoly.pow RQ [((1, 0), 1)] 5 = .ok (some [((0, 1), 1)]) := by decide +kernel

/-- constructor from a coefficient map: `X² ↦ 1` -/
example : ofMap RQ [((2, 0), 1)] = some [((0, 0), 1)] := by decide +kernel

/-- an expression: `(X + 1)^2 − X·Y`, evaluated in the quotient:
    `(Y+1)² − Y² = 2Y + 1` -/
example : evalQ RQ (.sub (.pow (.leaf [((1, 0), 1), ((0, 0), 1)]) 2)
      (.mul (.leaf [((1, 0), 1)]) (.leaf [((0, 1), 1)]))) =
    some [((0, 1), 2), ((0, 0), 1)] := by decide +kernel

/-- overflow error case of `Times` (exponent sum does not fit a machine word) -/
example : times RQ [((2 ^ 63, 0), 1)] [((2 ^ 63, 0), 1)] = .error .overflow := by decide +kernel

/-- the hypotheses of `reduceIn_spec_runOK` / `quotCtx_runSafe` / `evalQ_spec` (leaf case) are
    jointly satisfiable: reference record `C05.fieldOps (ZMod 3)`, graded order DegLex, generators
    `Y² + 2`, `X + 2Y`, dividend `X²Y + 1`; the run guard follows from the static one -/
example :
    let R : BPoly.Ring (ZMod 3) := { F := C05.fieldOps (ZMod 3), ord := { kind := .wdeglex 1 1, xGtY := true },
                                     varNames := ("X", "Y"),
                                     ideal := some [[((0, 2), 1), ((0, 0), 2)], [((1, 0), 1), ((0, 1), 2)]] }
    let L : Lawful R.F (ZMod 3) := C05.fieldLawful (ZMod 3)
    let gs : List (BPoly (ZMod 3)) := [[((0, 2), 1), ((0, 0), 2)], [((1, 0), 1), ((0, 1), 2)]]
    let f : BPoly (ZMod 3) := [((2, 1), 1), ((0, 0), 1)]
    R.ideal = some gs ∧ (∀ g ∈ gs, WF L g) ∧ WF L f ∧ Bounded f ∧
      C11.RunSafe R.F R.ord none gs divFuel f := by
  intro R L gs f
  have wf : ∀ x : BPoly (ZMod 3), (keys x).Nodup → (∀ dc ∈ x, dc.2 ≠ 0) → WF L x :=
    fun x h1 h2 => ⟨h1, fun dc hdc => ⟨trivial, h2 dc hdc⟩⟩
  refine ⟨rfl, ?_, wf f (by decide) (by decide), by intro dc hdc; revert dc; decide, ?_⟩
  · intro g hg
    simp only [gs, List.mem_cons, List.not_mem_nil, or_false] at hg
    rcases hg with rfl | rfl
    · exact wf _ (by decide) (by decide)
    · exact wf _ (by decide) (by decide)
  · exact runSafe_of_graded (R := R) (by decide) (by decide) (by decide)

end Examples

end C13
end Algobra
