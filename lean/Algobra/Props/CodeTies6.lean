/-
  Props/CodeTies6.lean — sixth batch of equivalence theorems between the MACHINE-TRANSLATED Go code
  (`Algobra/Gen/Code.lean`, regenerated on every run by /verif/extract/translate.go) and the model:
  the BOOKKEEPING of univariate polynomials (/repo/univariate/polynomial.go), where canonical form
  (property C05) is made: `Ld`, `coefPtr`, `Coef`, `coefIsZero`, `IsZero`, `IsOne`, `reslice`,
  `SetCoefPtr`, `IncrementCoef`, `DecrementCoef`, `removeCoef`  against Model/UPoly.lean.

  Representation.  `f.coefs []ff.Element` is translated as `List (Option Nat)`: `none` is a nil entry, an
  element is an abstract VALUE word; the element methods (`IsZero`, `IsNonzero`, `IsOne`, `Copy`, `Add`,
  `Sub`, `Neg`, `SetUnsigned`) are function parameters `method_M`, `f.coefs[d].Add(val)` is a guarded
  `List.set` of slot `d` to `some (method_Add old val)`; calling a method on a nil element, indexing out
  of range and `s[:n]` beyond the LENGTH make the translated function return `none`.  Methods calling
  other methods of the same polynomial (`f.Ld()`, `f.reslice()`, `f.coefPtr(0)`) call their translations
  on the current state of `f.coefs`.  NOT visible in this representation: the capacity of the slice
  (`append` reusing spare capacity, `s[:n]` with `len < n ≤ cap`) and the sharing of element OBJECTS
  between slots or polynomials (`SetCoefPtr` stores a pointer).
  The model has no nil: the abstraction is `absC F c` (nil ↦ `F.zero`); the representation invariant the
  Go code maintains is `Rep F c`: non-empty, entry 0 non-nil, last entry non-nil and nonzero unless the
  length is one.  Ties have the form `absC (go_f … c) = UPoly.f F (absC c)`, and the mutators are proved to
  preserve `Rep`.
  Proofs: Proofs/CodeTies6Defs.lean, Proofs/CodeTies6.lean, Proofs/CodeTies6Mut.lean.
-/
import Algobra.Proofs.CodeTies6
import Algobra.Proofs.CodeTies6Mut

namespace Algobra
namespace CodeTies6
open Algobra Algobra.Gen.Code Algobra.CodeTies6Proofs

/-! ### 1. observers -/

/-- `Ld()` on a non-empty slice (length of a Go slice `< 2^63`): the model's leading degree -/
theorem ld_tie (F : FOps Nat) {c : List (Option Nat)} (h0 : c ≠ []) (hlen : c.length < 2 ^ 63) :
    go_univariate_Polynomial_Ld c = ((UPoly.ld (absC F c) : Nat) : Int) :=
  CodeTies6Proofs.ld F h0 hlen

/-- `coefPtr(d)`, `d ≥ 0`: the entry (possibly nil), nil beyond the end; never panics -/
theorem coefPtr_tie (c : List (Option Nat)) (d : Nat) :
    go_univariate_Polynomial_coefPtr c (d : Int) = some (c.getD d none) :=
  CodeTies6Proofs.coefPtr c d

/-- `coefPtr(d)` with `d < 0` panics (index out of range) -/
theorem coefPtr_panics (c : List (Option Nat)) {d : Int} (h : d < 0) :
    go_univariate_Polynomial_coefPtr c d = none :=
  CodeTies6Proofs.coefPtr_neg c h

/-- THE TIE for `Coef(d)` (`Copy` = identity on values, `BaseField().Zero()` = `F.zero`): no panic, and
    the model's coefficient of the abstraction — for EVERY slice, no invariant needed -/
theorem coef_tie (F : FOps Nat) (c : List (Option Nat)) (d : Nat) :
    go_univariate_Polynomial_Coef (f_coefs := c) (method_Copy := id) (f_BaseField_Zero := some F.zero)
        (deg := (d : Int))
      = some (some (UPoly.coef F (absC F c) d)) :=
  CodeTies6Proofs.coef_model F c d

/-- THE TIE for `coefIsZero(d)`; `F.isZero F.zero` is needed because a nil entry counts as zero -/
theorem coefIsZero_tie (F : FOps Nat) (hz : F.isZero F.zero = true) (c : List (Option Nat)) (d : Nat) :
    go_univariate_Polynomial_coefIsZero (f_coefs := c) (method_IsZero := F.isZero) (deg := (d : Int))
      = some (F.isZero (UPoly.coef F (absC F c) d)) :=
  CodeTies6Proofs.coefIsZero F hz c d

/-- THE TIE for `IsZero()`: entry 0 must not be nil (part of `Rep`) -/
theorem isZero_tie (F : FOps Nat) (c : List (Option Nat)) (h0 : c.head? ≠ some none) :
    go_univariate_Polynomial_IsZero (f_coefs := c) (method_IsZero := F.isZero)
      = some (UPoly.isZero F (absC F c)) :=
  CodeTies6Proofs.isZero F c h0

/-- … and that hypothesis cannot be dropped: on `[nil]` the Go code dereferences nil -/
theorem isZero_panics (iz : Nat → Bool) : go_univariate_Polynomial_IsZero [none] iz = none :=
  CodeTies6Proofs.isZero_panics iz

/-- THE TIE for `IsOne()` (through the translated `coefPtr`) -/
theorem isOne_tie (F : FOps Nat) (c : List (Option Nat)) (h0 : c.head? ≠ some none) :
    go_univariate_Polynomial_IsOne (f_coefs := c) (method_IsOne := F.isOne)
      = some (UPoly.isOne F (absC F c)) :=
  CodeTies6Proofs.isOne F c h0

example : ([some 3, none, some 5] : List (Option Nat)) ≠ [] ∧
    ([some 3, none, some 5] : List (Option Nat)).length < 2 ^ 63 ∧
    ([some 3, none, some 5] : List (Option Nat)).head? ≠ some none := by decide
example : go_univariate_Polynomial_Ld [some 3, none, some 5] = 2 := by decide
example : go_univariate_Polynomial_Coef [some 3, none, some 5] id (some 0) 1 = some (some 0) := by decide
example : go_univariate_Polynomial_coefIsZero [some 3, none, some 5] (· == 0) 1 = some true := by decide
example : go_univariate_Polynomial_IsZero [some 0] (· == 0) = some true := by decide
example : go_univariate_Polynomial_IsOne [some 1] (· == 1) = some true := by decide

/-! ### 2. `reslice` -/

/-- THE TIE for `reslice()`: on a non-empty slice no panic, and the new slice abstracts to the model's
    `UPoly.trim` of the abstraction (`IsNonzero = !IsZero`, `F.zero` is zero).  Loop fuel: the index
    runs down from `len - 1 < 2^63`. -/
theorem reslice_tie {F : FOps Nat} {nz : Nat → Bool} (hL : Laws F nz) {c : List (Option Nat)}
    (h0 : c ≠ []) (hlen : c.length < 2 ^ 63) :
    ∃ c', go_univariate_Polynomial_reslice (f_coefs := c) (method_IsNonzero := nz) = some c' ∧
      absC F c' = UPoly.trim F (absC F c) :=
  ⟨_, CodeTies6Proofs.reslice nz h0 hlen, absC_resliceSpec hL h0⟩

/-- on the EMPTY slice `reslice` panics in the translation (`f.coefs[:1]` beyond the length; in Go only
    if the capacity is 0 too) -/
theorem reslice_empty (nz : Nat → Bool) : go_univariate_Polynomial_reslice [] nz = none := by
  have h := (reslice_loop nz [] (by decide) 0 loopFuel (Nat.le_refl _) (by unfold loopFuel; omega)).1 rfl
  have hi : wrapInt ((((([] : List (Option Nat)).length : Nat) : Int)) - 1) = ((0 : Nat) : Int) - 1 := by
    decide
  unfold go_univariate_Polynomial_reslice
  simp only [Int.ofNat_eq_natCast, hi, h]
  rfl

/-! ### 3. the mutators: `SetCoefPtr`, `IncrementCoef`, `DecrementCoef`, `removeCoef`

  Each theorem: under the representation invariant `Rep F c` (length `< 2^63`, degree `0 ≤ d < 2^62`, a
  non-nil value `some v`) the translated method does not panic, its new slice abstracts to the model's
  operation on the abstraction, and the invariant is PRESERVED.  Element methods: `IsZero = F.isZero`,
  `IsNonzero = nz` with `Laws F nz`, `Add = F.add`, `Sub = F.sub`, `Neg = F.neg`, `Copy = id`; the field
  laws needed for the nil-slot branches (where Go stores `val.Copy()` / `val.Neg()` and does not reslice,
  while the model adds to zero and trims) are explicit hypotheses. -/

private theorem hres (nz : Nat → Bool) : ∀ c : List (Option Nat), c ≠ [] → c.length < 2 ^ 63 →
    go_univariate_Polynomial_reslice c nz = some (resliceSpec nz c) :=
  fun _ h0 hl => CodeTies6Proofs.reslice nz h0 hl

/-- `reslice` re-establishes the invariant from "non-empty, entry 0 non-nil" -/
theorem reslice_rep {F : FOps Nat} {nz : Nat → Bool} (hL : Laws F nz) {c : List (Option Nat)}
    (h0 : c ≠ []) (hh : c.head? ≠ some none) (hlen : c.length < 2 ^ 63) :
    ∃ c', go_univariate_Polynomial_reslice c nz = some c' ∧ Rep F c' :=
  ⟨_, CodeTies6Proofs.reslice nz h0 hlen, Mut.rep_resliceSpec hL h0 hh⟩

/-- THE TIE for `SetCoefPtr(d, val)` -/
theorem setCoefPtr_tie {F : FOps Nat} {nz : Nat → Bool} (hL : Laws F nz) {c : List (Option Nat)}
    (hc : Rep F c) (hlen : c.length < 2 ^ 63) {d : Nat} (hd : d < 2 ^ 62) (v : Nat) :
    ∃ c', go_univariate_Polynomial_SetCoefPtr (f_coefs := c) (method_IsNonzero := nz)
        (method_IsZero := F.isZero) (deg := (d : Int)) (val := some v) = some c' ∧
      absC F c' = UPoly.setCoef F (absC F c) d v ∧ Rep F c' :=
  Mut.setCoefPtr_tie hL (hres nz) hc hlen hd v

/-- THE TIE for `IncrementCoef(d, val)`; `0 + x = x` for the nil-slot branch -/
theorem incrementCoef_tie {F : FOps Nat} {nz : Nat → Bool} (hL : Laws F nz)
    (hadd0 : ∀ x, F.add F.zero x = x) {c : List (Option Nat)} (hc : Rep F c)
    (hlen : c.length < 2 ^ 63) {d : Nat} (hd : d < 2 ^ 62) (v : Nat) :
    ∃ c', go_univariate_Polynomial_IncrementCoef (f_coefs := c) (method_IsNonzero := nz)
        (method_Add := F.add) (method_Copy := id) (method_IsZero := F.isZero) (deg := (d : Int))
        (val := some v) = some c' ∧
      absC F c' = UPoly.incCoef F (absC F c) d v ∧ Rep F c' :=
  Mut.incrementCoef_tie hL (hres nz) hadd0 hc hlen hd v

/-- THE TIE for `DecrementCoef(d, val)`; `0 - x = -x`, and `-x ≠ 0` for `x ≠ 0` (invariant when growing) -/
theorem decrementCoef_tie {F : FOps Nat} {nz : Nat → Bool} (hL : Laws F nz)
    (hsub0 : ∀ x, F.sub F.zero x = F.neg x)
    (hnegz : ∀ x, F.isZero x = false → F.isZero (F.neg x) = false) {c : List (Option Nat)}
    (hc : Rep F c) (hlen : c.length < 2 ^ 63) {d : Nat} (hd : d < 2 ^ 62) (v : Nat) :
    ∃ c', go_univariate_Polynomial_DecrementCoef (f_coefs := c) (method_IsNonzero := nz)
        (method_Sub := F.sub) (method_Neg := F.neg) (method_IsZero := F.isZero) (deg := (d : Int))
        (val := some v) = some c' ∧
      absC F c' = UPoly.decCoef F (absC F c) d v ∧ Rep F c' :=
  Mut.decrementCoef_tie hL (hres nz) hsub0 hnegz hc hlen hd v

/-- THE TIE for `removeCoef(d)` (`SetUnsigned(0)` = the field's zero) when the slot, if inside the slice,
    is not nil … -/
theorem removeCoef_tie {F : FOps Nat} {nz : Nat → Bool} (hL : Laws F nz) {c : List (Option Nat)}
    (hc : Rep F c) (hlen : c.length < 2 ^ 63) {d : Nat}
    (hslot : d < c.length → (c.getD d none).isSome = true) :
    ∃ c', go_univariate_Polynomial_removeCoef (f_coefs := c) (method_IsNonzero := nz)
        (method_SetUnsigned := fun _ _ => F.zero) (deg := (d : Int)) = some c' ∧
      absC F c' = UPoly.removeCoef F (absC F c) d ∧ Rep F c' :=
  Mut.removeCoef_tie hL (hres nz) hc hlen hslot

/-- … and on a nil slot inside the slice the Go code dereferences nil (a finding about the code: the
    model's `removeCoef` has no such case) -/
theorem removeCoef_panics (nz : Nat → Bool) (su : Nat → Nat → Nat) {c : List (Option Nat)} {d : Nat}
    (hlen : c.length < 2 ^ 63) (hin : d < c.length) (hs : c.getD d none = none) :
    go_univariate_Polynomial_removeCoef c nz su (d : Int) = none :=
  Mut.removeCoef_panic su hlen hin hs

/-- non-vacuity: GF(5), `1 + 2x²` stored as `[1, nil, 2]` -/
example : Laws Mut.F5 Mut.nz5 ∧ Rep Mut.F5 Mut.c5 ∧ Mut.c5.length < 2 ^ 63 ∧ (2 : Nat) < 2 ^ 62 :=
  ⟨Mut.laws5, Mut.rep5, by decide, by decide⟩

end CodeTies6
end Algobra
