/-
  Props/C19.lean — property C19 (integer helpers): theorems about the model functions
  `Algobra.Auxmath.{pow, gcd, boundSqrt, factorizePrimePower, factorize, combinations}`.
  Machine word = 64 bit: all inputs are `< 2^64`.
-/
import Algobra.Proofs.Auxmath

namespace Algobra.C19
open Algobra Algobra.Auxmath

/-! ### Pow -/

/-- `Pow` returns exactly `a^n` whenever it returns no error. -/
theorem pow_exact {a n r : Nat} (ha : a < 2 ^ 64) (_hn : n < 2 ^ 64)
    (h : Auxmath.pow a n = .ok r) : r = a ^ n := by
  unfold Auxmath.pow at h
  split at h
  · cases h
  · rename_i hg
    have hg' : powGuard a n = false := by simpa using hg
    have hlt := pow_lt_of_powGuard_false ha hg'
    injection h with h
    rw [← h, powLoop_eq 1 a n (by simpa using hlt), Nat.one_mul]

/-- `Pow` returns an Overflow error whenever `a^n` does not fit a machine word. -/
theorem pow_overflow {a n : Nat} (ha : a < 2 ^ 64) (_hn : n < 2 ^ 64)
    (h : a ^ n ≥ 2 ^ 64) : Auxmath.pow a n = .error .overflow := by
  unfold Auxmath.pow
  split
  · rfl
  · rename_i hg
    have hg' : powGuard a n = false := by simpa using hg
    have := pow_lt_of_powGuard_false ha hg'
    omega

/-- the only error `Pow` ever returns is Overflow -/
theorem pow_error {a n : Nat} {e : Kind} (h : Auxmath.pow a n = .error e) : e = .overflow := by
  unfold Auxmath.pow at h
  split at h
  · injection h with h; exact h.symm
  · cases h

-- non-vacuity and sanity: `3^31` passes the guard (exact value); the guard is conservative
-- (`3^40 < 2^64` is refused), which the property allows; `3^41` does not fit
example : (3 : Nat) < 2 ^ 64 ∧ (31 : Nat) < 2 ^ 64 ∧ Auxmath.pow 3 31 = .ok (3 ^ 31) := by
  decide +kernel
example : Auxmath.pow 3 40 = .error .overflow := by decide +kernel
example : (3 : Nat) < 2 ^ 64 ∧ (41 : Nat) < 2 ^ 64 ∧ (3 : Nat) ^ 41 ≥ 2 ^ 64 := by norm_num
-- the guard product `boundLog2 a * n` itself does not wrap (PF-05): n = 2^63
example : Auxmath.pow 3 (2 ^ 63) = .error .overflow := by decide +kernel

/-! ### Gcd -/

/-- `Gcd` is the greatest common divisor. -/
theorem gcd_eq (a b : Nat) : Auxmath.gcd a b = Nat.gcd a b := Auxmath.gcd_eq a b

/-! ### BoundSqrt -/

/-- `BoundSqrt(a)` squared (as an integer, not a machine word) is at least `a`. -/
theorem boundSqrt_sq {a : Nat} (ha : a < 2 ^ 64) : a ≤ (Auxmath.boundSqrt a) ^ 2 :=
  Auxmath.boundSqrt_sq ha

example : ((2 : Nat) ^ 64 - 1 < 2 ^ 64) ∧ Auxmath.boundSqrt (2 ^ 64 - 1) = 2 ^ 32 := by decide +kernel
example : Auxmath.gcd 12 18 = 6 := by decide +kernel

/-! ### FactorizePrimePower -/

/-- soundness: a successful result `(p,k)` has `p` prime, `k > 0` and `p^k = q` exactly -/
theorem factorizePrimePower_sound {q p k : Nat} (hq : q < 2 ^ 64)
    (h : Auxmath.factorizePrimePower q = .ok (p, k)) : p.Prime ∧ 0 < k ∧ p ^ k = q := by
  rw [factorizePrimePower_eq] at h
  split at h
  · cases h
  · rename_i h01
    have hq2 : 2 ≤ q := by omega
    rcases wheelChoice_spec hq2 hq with ⟨hw, hprime⟩ | ⟨hw, hmin⟩
    · rw [if_pos hw] at h
      injection h with h; injection h with h1 h2
      subst h1; subst h2
      exact ⟨hprime, by omega, Nat.pow_one _⟩
    · rw [if_neg hw] at h
      split at h
      · rename_i n hn
        injection h with h; injection h with h1 h2
        subst h1; subst h2
        have hpr : (wheelChoice q).Prime := hmin ▸ Nat.minFac_prime (by omega)
        obtain ⟨_, he⟩ := fppDivide_some (by omega) hn
        rw [Nat.sub_zero] at he
        refine ⟨hpr, ?_, he.symm⟩
        rcases Nat.eq_zero_or_pos n with h0 | h0
        · subst h0; rw [Nat.pow_zero] at he; omega
        · exact h0
      · cases h

/-- completeness (with uniqueness): if `q = P^K` with `P` prime and `K > 0`, the result is
    exactly `(P,K)` -/
theorem factorizePrimePower_complete {q P K : Nat} (hq : q < 2 ^ 64) (hP : P.Prime) (hK : 0 < K)
    (hPK : P ^ K = q) : Auxmath.factorizePrimePower q = .ok (P, K) := by
  have hq2 : 2 ≤ q := by
    rw [← hPK]
    calc 2 ≤ P := hP.two_le
      _ = P ^ 1 := (Nat.pow_one _).symm
      _ ≤ P ^ K := Nat.pow_le_pow_right hP.pos hK
  have hminfac : q.minFac = P := by rw [← hPK]; exact hP.pow_minFac (by omega)
  rw [factorizePrimePower_eq, if_neg (by omega)]
  rcases wheelChoice_spec hq2 hq with ⟨hw, hprime⟩ | ⟨hw, hmin⟩
  · rw [if_pos hw]
    obtain ⟨h1, h2⟩ := (Nat.Prime.pow_eq_iff hprime).1 hPK
    rw [h1, h2]
  · rw [if_neg hw, hmin, hminfac]
    have := fppDivide_pow hP.two_le K 0
    rw [hPK, Nat.zero_add] at this
    rw [this]

/-- every error of `FactorizePrimePower` is an InputValue error -/
theorem factorizePrimePower_error {q : Nat} {e : Kind}
    (h : Auxmath.factorizePrimePower q = .error e) : e = .inputValue := by
  rw [factorizePrimePower_eq] at h
  split at h
  · injection h with h; exact h.symm
  · split at h
    · cases h
    · split at h
      · cases h
      · injection h with h; exact h.symm

/-- `FactorizePrimePower` returns `(p,k)` with `p` prime and `p^k = q` exactly when `q` is a prime
    power (and then `(p,k)` is the unique such pair), and an InputValue error otherwise. -/
theorem factorizePrimePower_spec {q : Nat} (hq : q < 2 ^ 64) :
    ((∃ p k, p.Prime ∧ 0 < k ∧ p ^ k = q) →
        ∃ p k, Auxmath.factorizePrimePower q = .ok (p, k) ∧ p.Prime ∧ 0 < k ∧ p ^ k = q ∧
          ∀ p' k', p'.Prime → 0 < k' → p' ^ k' = q → p' = p ∧ k' = k) ∧
    ((¬ ∃ p k, p.Prime ∧ 0 < k ∧ p ^ k = q) →
        Auxmath.factorizePrimePower q = .error .inputValue) ∧
    (∀ p k, Auxmath.factorizePrimePower q = .ok (p, k) → p.Prime ∧ 0 < k ∧ p ^ k = q) := by
  refine ⟨?_, ?_, fun p k h => factorizePrimePower_sound hq h⟩
  · rintro ⟨p, k, hp, hk, hpk⟩
    refine ⟨p, k, factorizePrimePower_complete hq hp hk hpk, hp, hk, hpk, ?_⟩
    intro p' k' hp' hk' hpk'
    have h1 := factorizePrimePower_complete hq hp hk hpk
    have h2 := factorizePrimePower_complete hq hp' hk' hpk'
    rw [h1] at h2
    injection h2 with h2; injection h2 with h3 h4
    exact ⟨h3.symm, h4.symm⟩
  · intro hnot
    match hres : Auxmath.factorizePrimePower q with
    | .ok (p, k) =>
      exact absurd ⟨p, k, factorizePrimePower_sound hq hres⟩ hnot
    | .error e =>
      rw [factorizePrimePower_error hres]

-- non-vacuity / sanity: a prime power, a prime, a composite that is not a prime power, 0 and 1
example : (343 : Nat) < 2 ^ 64 ∧ Nat.Prime 7 ∧ 0 < 3 ∧ 7 ^ 3 = 343 := by norm_num
example : Auxmath.factorizePrimePower 343 = .ok (7, 3) := by decide +kernel
example : Auxmath.factorizePrimePower 65537 = .ok (65537, 1) := by decide +kernel
example : Auxmath.factorizePrimePower (5 * 7) = .error .inputValue := by decide +kernel
example : Auxmath.factorizePrimePower 0 = .error .inputValue := by decide +kernel
example : Auxmath.factorizePrimePower 1 = .error .inputValue := by decide +kernel
example : Auxmath.factorizePrimePower (2 ^ 63) = .ok (2, 63) := by decide +kernel

/-! ### Factorize -/

/-- `Factorize` returns, for `1 ≤ n`, strictly increasing prime factors with positive exponents
    whose product of prime powers is `n`. (`fuel = 64` = recursion depth available for a word.) -/
theorem factorize_spec {n : Nat} (h1 : 1 ≤ n) (h64 : n < 2 ^ 64) :
    ((Auxmath.factorize 64 n).map Prod.fst).Pairwise (· < ·) ∧
    (∀ pe ∈ Auxmath.factorize 64 n, pe.1.Prime ∧ 0 < pe.2 ∧ pe.1 ∣ n) ∧
    ((Auxmath.factorize 64 n).map (fun pe => pe.1 ^ pe.2)).prod = n := by
  obtain ⟨a, b, c⟩ := factorize_isFactorization 64 n h1 h64 h64
  exact ⟨b, a, c⟩

/-- consequently every prime factor of `n` occurs in the list -/
theorem factorize_complete {n p : Nat} (h1 : 1 ≤ n) (h64 : n < 2 ^ 64) (hp : p.Prime)
    (hpn : p ∣ n) : p ∈ (Auxmath.factorize 64 n).map Prod.fst := by
  obtain ⟨_, a, c⟩ := factorize_spec h1 h64
  rw [← c] at hpn
  obtain ⟨x, hx, hpx⟩ := (Prime.dvd_prod_iff hp.prime).1 hpn
  obtain ⟨pe, hmem, rfl⟩ := List.mem_map.1 hx
  have := (Nat.prime_dvd_prime_iff_eq hp (a pe hmem).1).1 (hp.dvd_of_dvd_pow hpx)
  exact List.mem_map.2 ⟨pe, hmem, this.symm⟩

/-- the documented exceptional outputs for 0 and 1 -/
theorem factorize_zero : Auxmath.factorize 64 0 = [(0, 1)] := rfl
theorem factorize_one : Auxmath.factorize 64 1 = [] := rfl

example : (1 : Nat) ≤ 360 ∧ (360 : Nat) < 2 ^ 64 := by norm_num
example : Auxmath.factorize 64 360 = [(2, 3), (3, 2), (5, 1)] := by decide +kernel
example : Auxmath.factorize 64 (2 ^ 63) = [(2, 63)] := by decide +kernel
example : Auxmath.factorize 64 (7 * 7 * 11 * 65537) = [(7, 2), (11, 1), (65537, 1)] := by
  decide +kernel

end Algobra.C19
