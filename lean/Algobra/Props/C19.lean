/-
  Props/C19.lean — property C19 (integer helpers): theorems about the model functions
  `Algobra.Auxmath.{pow, gcd, boundSqrt, factorizePrimePower, factorize, combinations}`.
  Machine word = 64 bit: all inputs are `< 2^64`.
-/
import Algobra.Proofs.Auxmath

namespace Algobra.C19
open Algobra Algobra.Auxmath

/-! ### Pow -/

/-- `Pow` returns exactly `a^n` whenever it returns no error. -/
theorem pow_exact {a n r : Nat} (ha : a < 2 ^ 64) (_hn : n < 2 ^ 64)
    (h : Auxmath.pow a n = .ok r) : r = a ^ n := by
  unfold Auxmath.pow at h
  split at h
  · cases h
  · rename_i hg
    have hg' : powGuard a n = false := by simpa using hg
    have hlt := pow_lt_of_powGuard_false ha hg'
    injection h with h
    rw [← h, powLoop_eq 1 a n (by simpa using hlt), Nat.one_mul]

/-- `Pow` returns an Overflow error whenever `a^n` does not fit a machine word. -/
theorem pow_overflow {a n : Nat} (ha : a < 2 ^ 64) (_hn : n < 2 ^ 64)
    (h : a ^ n ≥ 2 ^ 64) : Auxmath.pow a n = .error .overflow := by
  unfold Auxmath.pow
  split
  · rfl
  · rename_i hg
    have hg' : powGuard a n = false := by simpa using hg
    have := pow_lt_of_powGuard_false ha hg'
    omega

/-- the only error `Pow` ever returns is Overflow -/
theorem pow_error {a n : Nat} {e : Kind} (h : Auxmath.pow a n = .error e) : e = .overflow := by
  unfold Auxmath.pow at h
  split at h
  · injection h with h; exact h.symm
  · cases h

-- non-vacuity and sanity: `3^31` passes the guard (exact value); the guard is conservative
-- (`3^40 < 2^64` is refused), which the property allows; `3^41` does not fit
example : (3 : Nat) < 2 ^ 64 ∧ (31 : Nat) < 2 ^ 64 ∧ Auxmath.pow 3 31 = .ok (3 ^ 31) := by
  decide +kernel
example : Auxmath.pow 3 40 = .error .overflow := by decide +kernel
example : (3 : Nat) < 2 ^ 64 ∧ (41 : Nat) < 2 ^ 64 ∧ (3 : Nat) ^ 41 ≥ 2 ^ 64 := by norm_num
-- the guard product `boundLog2 a * n` itself does not wrap (PF-05): n = 2^63
example : Auxmath.pow 3 (2 ^ 63) = .error .overflow := by decide +kernel

/-! ### Gcd -/

/-- `Gcd` is the greatest common divisor. -/
theorem gcd_eq (a b : Nat) : Auxmath.gcd a b = Nat.gcd a b := Auxmath.gcd_eq a b

/-! ### BoundSqrt -/

/-- `BoundSqrt(a)` squared (as an integer, not a machine word) is at least `a`. -/
theorem boundSqrt_sq {a : Nat} (ha : a < 2 ^ 64) : a ≤ (Auxmath.boundSqrt a) ^ 2 :=
  Auxmath.boundSqrt_sq ha

example : ((2 : Nat) ^ 64 - 1 < 2 ^ 64) ∧ Auxmath.boundSqrt (2 ^ 64 - 1) = 2 ^ 32 := by decide +kernel
example : Auxmath.gcd 12 18 = 6 := by decide +kernel

/-! ### FactorizePrimePower -/

/-- soundness: a successful result `(p,k)` has `p` prime, `k > 0` and `p^k = q` exactly -/
theorem factorizePrimePower_sound {q p k : Nat} (hq : q < 2 ^ 64)
    (h : Auxmath.factorizePrimePower q = .ok (p, k)) : p.Prime ∧ 0 < k ∧ p ^ k = q := by
  rw [factorizePrimePower_eq] at h
  split at h
  · cases h
  · rename_i h01
    have hq2 : 2 ≤ q := by omega
    rcases wheelChoice_spec hq2 hq with ⟨hw, hprime⟩ | ⟨hw, hmin⟩
    · rw [if_pos hw] at h
      injection h with h; injection h with h1 h2
      subst h1; subst h2
      exact ⟨hprime, by omega, Nat.pow_one _⟩
    · rw [if_neg hw] at h
      split at h
      · rename_i n hn
        injection h with h; injection h with h1 h2
        subst h1; subst h2
        have hpr : (wheelChoice q).Prime := hmin ▸ Nat.minFac_prime (by omega)
        obtain ⟨_, he⟩ := fppDivide_some (by omega) hn
        rw [Nat.sub_zero] at he
        refine ⟨hpr, ?_, he.symm⟩
        rcases Nat.eq_zero_or_pos n with h0 | h0
        · subst h0; rw [Nat.pow_zero] at he; omega
        · exact h0
      · cases h

/-- completeness (with uniqueness): if `q = P^K` with `P` prime and `K > 0`, the result is
    exactly `(P,K)` -/
theorem factorizePrimePower_complete {q P K : Nat} (hq : q < 2 ^ 64) (hP : P.Prime) (hK : 0 < K)
    (hPK : P ^ K = q) : Auxmath.factorizePrimePower q = .ok (P, K) := by
  have hq2 : 2 ≤ q := by
    rw [← hPK]
    calc 2 ≤ P := hP.two_le
      _ = P ^ 1 := (Nat.pow_one _).symm
      _ ≤ P ^ K := Nat.pow_le_pow_right hP.pos hK
  have hminfac : q.minFac = P := by rw [← hPK]; exact hP.pow_minFac (by omega)
  rw [factorizePrimePower_eq, if_neg (by omega)]
  rcases wheelChoice_spec hq2 hq with ⟨hw, hprime⟩ | ⟨hw, hmin⟩
  · rw [if_pos hw]
    obtain ⟨h1, h2⟩ := (Nat.Prime.pow_eq_iff hprime).1 hPK
    rw [h1, h2]
  · rw [if_neg hw, hmin, hminfac]
    have := fppDivide_pow hP.two_le K 0
    rw [hPK, Nat.zero_add] at this
    rw [this]

/-- every error of `FactorizePrimePower` is an InputValue error -/
theorem factorizePrimePower_error {q : Nat} {e : Kind}
    (h : Auxmath.factorizePrimePower q = .error e) : e = .inputValue := by
  rw [factorizePrimePower_eq] at h
  split at h
  · injection h with h; exact h.symm
  · split at h
    · cases h
    · split at h
      · cases h
      · injection h with h; exact h.symm

/-- `FactorizePrimePower` returns `(p,k)` with `p` prime and `p^k = q` exactly when `q` is a prime
    power (and then `(p,k)` is the unique such pair), and an InputValue error otherwise. -/
theorem factorizePrimePower_spec {q : Nat} (hq : q < 2 ^ 64) :
    ((∃ p k, p.Prime ∧ 0 < k ∧ p ^ k = q) →
        ∃ p k, Auxmath.factorizePrimePower q = .ok (p, k) ∧ p.Prime ∧ 0 < k ∧ p ^ k = q ∧
          ∀ p' k', p'.Prime → 0 < k' → p' ^ k' = q → p' = p ∧ k' = k) ∧
    ((¬ ∃ p k, p.Prime ∧ 0 < k ∧ p ^ k = q) →
        Auxmath.factorizePrimePower q = .error .inputValue) ∧
    (∀ p k, Auxmath.factorizePrimePower q = .ok (p, k) → p.Prime ∧ 0 < k ∧ p ^ k = q) := by
  refine ⟨?_, ?_, fun p k h => factorizePrimePower_sound hq h⟩
  · rintro ⟨p, k, hp, hk, hpk⟩
    refine ⟨p, k, factorizePrimePower_complete hq hp hk hpk, hp, hk, hpk, ?_⟩
    intro p' k' hp' hk' hpk'
    have h1 := factorizePrimePower_complete hq hp hk hpk
    have h2 := factorizePrimePower_complete hq hp' hk' hpk'
    rw [h1] at h2
    injection h2 with h2; injection h2 with h3 h4
    exact ⟨h3.symm, h4.symm⟩
  · intro hnot
    match hres : Auxmath.factorizePrimePower q with
    | .ok (p, k) =>
      exact absurd ⟨p, k, factorizePrimePower_sound hq hres⟩ hnot
    | .error e =>
      rw [factorizePrimePower_error hres]

-- non-vacuity / sanity: a prime power, a prime, a composite that is not a prime power, 0 and 1
example : (343 : Nat) < 2 ^ 64 ∧ Nat.Prime 7 ∧ 0 < 3 ∧ 7 ^ 3 = 343 := by norm_num
example : Auxmath.factorizePrimePower 343 = .ok (7, 3) := by decide +kernel
example : Auxmath.factorizePrimePower 65537 = .ok (65537, 1) := by decide +kernel
example : Auxmath.factorizePrimePower (5 * 7) = .error .inputValue := by decide +kernel
example : Auxmath.factorizePrimePower 0 = .error .inputValue := by decide +kernel
example : Auxmath.factorizePrimePower 1 = .error .inputValue := by decide +kernel
example : Auxmath.factorizePrimePower (2 ^ 63) = .ok (2, 63) := by decide +kernel

/-! ### Factorize -/

/-- `Factorize` returns, for `1 ≤ n`, strictly increasing prime factors with positive exponents
    whose product of prime powers is `n`. (`fuel = 64` = recursion depth available for a word.) -/
theorem factorize_spec {n : Nat} (h1 : 1 ≤ n) (h64 : n < 2 ^ 64) :
    ((Auxmath.factorize 64 n).map Prod.fst).Pairwise (· < ·) ∧
    (∀ pe ∈ Auxmath.factorize 64 n, pe.1.Prime ∧ 0 < pe.2 ∧ pe.1 ∣ n) ∧
    ((Auxmath.factorize 64 n).map (fun pe => pe.1 ^ pe.2)).prod = n := by
  obtain ⟨a, b, c⟩ := factorize_isFactorization 64 n h1 h64 h64
  exact ⟨b, a, c⟩

/-- consequently every prime factor of `n` occurs in the list -/
theorem factorize_complete {n p : Nat} (h1 : 1 ≤ n) (h64 : n < 2 ^ 64) (hp : p.Prime)
    (hpn : p ∣ n) : p ∈ (Auxmath.factorize 64 n).map Prod.fst := by
  obtain ⟨_, a, c⟩ := factorize_spec h1 h64
  rw [← c] at hpn
  obtain ⟨x, hx, hpx⟩ := (Prime.dvd_prod_iff hp.prime).1 hpn
  obtain ⟨pe, hmem, rfl⟩ := List.mem_map.1 hx
  have := (Nat.prime_dvd_prime_iff_eq hp (a pe hmem).1).1 (hp.dvd_of_dvd_pow hpx)
  exact List.mem_map.2 ⟨pe, hmem, this.symm⟩

/-- the documented exceptional outputs for 0 and 1 -/
theorem factorize_zero : Auxmath.factorize 64 0 = [(0, 1)] := rfl
theorem factorize_one : Auxmath.factorize 64 1 = [] := rfl

example : (1 : Nat) ≤ 360 ∧ (360 : Nat) < 2 ^ 64 := by norm_num
example : Auxmath.factorize 64 360 = [(2, 3), (3, 2), (5, 1)] := by decide +kernel
example : Auxmath.factorize 64 (2 ^ 63) = [(2, 63)] := by decide +kernel
example : Auxmath.factorize 64 (7 * 7 * 11 * 65537) = [(7, 2), (11, 1), (65537, 1)] := by
  decide +kernel

/-! ### CombinIter -/

/-- `Next()` is the lexicographic successor: from a combination `s` (strictly increasing
    `k`-list over `{0..n-1}`) it produces a combination `s'` with `s < s'` and no combination
    strictly in between; it reports the end only at the lexicographically last combination.
    (`List.Lex (· < ·)` is the order `<` of `List Nat`.) -/
theorem next_spec {n k : Nat} {s : List Nat}
    (hs : s.length = k ∧ s.Pairwise (· < ·) ∧ ∀ x ∈ s, x < n) :
    (∀ s', Auxmath.next n s = some s' →
      (s'.length = k ∧ s'.Pairwise (· < ·) ∧ ∀ x ∈ s', x < n) ∧ List.Lex (· < ·) s s' ∧
      ∀ t, (t.length = k ∧ t.Pairwise (· < ·) ∧ ∀ x ∈ t, x < n) →
        ¬ (List.Lex (· < ·) s t ∧ List.Lex (· < ·) t s')) ∧
    (Auxmath.next n s = none →
      ∀ t, (t.length = k ∧ t.Pairwise (· < ·) ∧ ∀ x ∈ t, x < n) → ¬ List.Lex (· < ·) s t) := by
  have hv := (valid_iff n k s).2 hs
  constructor
  · intro s' h
    obtain ⟨a, b, c⟩ := next_some h hv
    refine ⟨(valid_iff n k s').1 a, b, ?_⟩
    rintro t ht ⟨h1, h2⟩
    rcases c t ((valid_iff n k t).2 ht) h1 with h3 | h3
    · exact lexLt_irrefl _ (lexLt_trans h3 h2)
    · subst h3; exact lexLt_irrefl _ h2
  · intro h t ht hlt
    rcases next_none h hv t ((valid_iff n k t).2 ht) with h3 | h3
    · exact lexLt_irrefl _ (lexLt_trans hlt h3)
    · subst h3; exact lexLt_irrefl _ hlt

/-- A combination iterator for `(n,k)` with `0 ≤ k ≤ n` yields every `k`-element subset of
    `{0,…,n-1}` exactly once, in lexicographic order, each as a strictly increasing index list:
    the produced sequence is strictly increasing in the lexicographic order (hence without
    repetition), and its members are exactly the strictly increasing lists of length `k` with
    entries `< n`; there are `n choose k` of them. -/
theorem combinations_spec {n k : Nat} (hk : k ≤ n) :
    (Auxmath.combinations n k).Pairwise (List.Lex (· < ·)) ∧
    (∀ s, s ∈ Auxmath.combinations n k ↔
      s.length = k ∧ s.Pairwise (· < ·) ∧ ∀ x ∈ s, x < n) ∧
    (Auxmath.combinations n k).Nodup ∧
    (Auxmath.combinations n k).length = n.choose k := by
  obtain ⟨hpw, hmem⟩ := combinations_props hk
  refine ⟨hpw, fun s => (hmem s).trans (valid_iff n k s), ?_, combinations_length hk⟩
  exact hpw.imp (fun {a b} h (hab : a = b) => lexLt_irrefl a (by rw [← hab] at h; exact h))

/-- the two conditions determine the sequence: any lexicographically strictly sorted list with the
    same members is the iterator's output -/
theorem combinations_unique {n k : Nat} (hk : k ≤ n) (L : List (List Nat))
    (hsorted : L.Pairwise (List.Lex (· < ·)))
    (hmem : ∀ s, s ∈ L ↔ s.length = k ∧ s.Pairwise (· < ·) ∧ ∀ x ∈ s, x < n) :
    L = Auxmath.combinations n k := by
  obtain ⟨hpw, hm, hnd, _⟩ := combinations_spec hk
  have hndL : L.Nodup :=
    hsorted.imp (fun {a b} h (hab : a = b) => lexLt_irrefl a (by rw [← hab] at h; exact h))
  have hperm : L.Perm (Auxmath.combinations n k) :=
    (List.perm_ext_iff_of_nodup hndL hnd).2 (fun s => (hmem s).trans (hm s).symm)
  exact hperm.eq_of_pairwise
    (fun a b _ _ h1 h2 => absurd (lexLt_trans h1 h2) (lexLt_irrefl _)) hsorted hpw

/-- each subset exactly once: sending an index list to its set of indices is a bijection from the
    iterator's output onto the `k`-subsets of `{0..n-1}` -/
theorem combinations_subsets {n k : Nat} (hk : k ≤ n) :
    ((Auxmath.combinations n k).map List.toFinset).Nodup ∧
    ∀ f : Finset Nat, f ∈ (Auxmath.combinations n k).map List.toFinset ↔
      f ∈ (Finset.range n).powersetCard k := by
  obtain ⟨_, hm, hnd, _⟩ := combinations_spec hk
  constructor
  · refine (List.nodup_map_iff_inj_on hnd).2 ?_
    intro s hs t ht hst
    obtain ⟨_, hs2, _⟩ := (hm s).1 hs
    obtain ⟨_, ht2, _⟩ := (hm t).1 ht
    have hs' : s.Pairwise (· ≤ ·) := hs2.imp (fun h => Nat.le_of_lt h)
    have ht' : t.Pairwise (· ≤ ·) := ht2.imp (fun h => Nat.le_of_lt h)
    have hsn : s.Nodup := hs2.imp (fun h => Nat.ne_of_lt h)
    have htn : t.Nodup := ht2.imp (fun h => Nat.ne_of_lt h)
    rw [← (List.toFinset_sort (· ≤ ·) hsn).2 hs', ← (List.toFinset_sort (· ≤ ·) htn).2 ht', hst]
  · intro f
    rw [List.mem_map, Finset.mem_powersetCard]
    constructor
    · rintro ⟨s, hs, rfl⟩
      obtain ⟨h1, h2, h3⟩ := (hm s).1 hs
      have hsn : s.Nodup := h2.imp (fun h => Nat.ne_of_lt h)
      exact ⟨fun x hx => Finset.mem_range.2 (h3 x (List.mem_toFinset.1 hx)),
        by rw [List.toFinset_card_of_nodup hsn, h1]⟩
    · rintro ⟨hsub, hcard⟩
      have hv : Valid n k (f.sort (· ≤ ·)) :=
        mem_validSet.1 (Finset.mem_image.2 ⟨f, Finset.mem_powersetCard.2 ⟨hsub, hcard⟩, rfl⟩)
      exact ⟨f.sort (· ≤ ·), (hm _).2 ((valid_iff n k _).1 hv), Finset.sort_toFinset f (· ≤ ·)⟩

example : (2 : Nat) ≤ 4 := by norm_num
example : Auxmath.combinations 4 2 = [[0, 1], [0, 2], [0, 3], [1, 2], [1, 3], [2, 3]] := by
  decide +kernel
example : Auxmath.combinations 3 0 = [[]] := by decide +kernel
example : Auxmath.combinations 3 3 = [[0, 1, 2]] := by decide +kernel
example : Auxmath.next 6 [0, 4, 5] = some [1, 2, 3] := by decide +kernel
-- hypotheses of `next_spec` hold for that state (n = 6, k = 3)
example : ([0, 4, 5] : List Nat).length = 3 ∧ ([0, 4, 5] : List Nat).Pairwise (· < ·) ∧
    ∀ x ∈ ([0, 4, 5] : List Nat), x < 6 := by decide
-- hypotheses of `combinations_unique` are satisfiable (by the iterator's own output)
example : ∃ L : List (List Nat), L.Pairwise (List.Lex (· < ·)) ∧
    ∀ s, s ∈ L ↔ s.length = 2 ∧ s.Pairwise (· < ·) ∧ ∀ x ∈ s, x < 4 :=
  ⟨_, (combinations_spec (by norm_num : 2 ≤ 4)).1, (combinations_spec (by norm_num)).2.1⟩
example : Auxmath.next 6 [3, 4, 5] = none := by decide +kernel

end Algobra.C19
