/-
  Props/C18Tables4.lean — C18, final layer: `history_transparent_full2` is PROVED.  Precomputed
  tables never change an observable result of ANY history of `step` operations (Model/Hist.lean)
  that does not use the three raw-data constructors.

  Added here (Proofs/Tables4.lean): `bCtor … "str"` (`BPoly.parse` through
  `BPoly.stringToMapRx.go` / `mapAdd` with the `parse` hypothesis), and the ideal operations with the
  fourth store invariant (`Tables.StoreOK4` = `StoreOKAll`): `sPoly sPairRems buchberger
  groebnerBasis decideGroebner isGroebnerQ leadingTerms spannedByOthers minimizeLoop minimizeBasis
  isMinimalQ remByOthers reduceBasis isReducedQ quotientGens` — each a fold over functions with
  `_par` lemmas in `Tables.B`.

  COVERAGE of the `Op` constructors of Model/Hist.lean (T28):
    covered   eCtor (every `how` but "enc"; unknown `how` = "bad-op")  eBin eUn ePow eIn eProd eSetNeg
              eSetU eEq eShow  tables  bad
    covered   uCtor (every `how` but "coefs")  uBin uUn uScale uPow uEval uCoef uLc uIn uSetNeg
              uSetScale uSetCoef uSetZero uEmbed uQuoRem uGcd uInterp uEq uObs
    covered   bCtor (every `how` but "map")  bBin bUn bScale bPow bEval bCoef bLc bIn bSetScale bSetCoef
              bQuoRem bRem bInterp bEq bObs
    covered   iNew iCopy iGroebner iPred iXform iGens iObs
    excluded  eCtor "enc", uCtor "coefs", bCtor "map" (decode raw wire data; can create invalid
              representations — `noRaw`)
  NOT in scope: the protocol-level operations of Model/Extra.lean (`escrOp tcheckOp anyOp quotientOp
  quotient1Op quotient2Op embedQOp uquotOp uireduceOp ireduceOp spolyOp`): they are separate
  functions on `St`, not constructors of `Op`, and do not go through `step`; several of them call
  `step` on rewritten operations (covered by T28 step by step) or the `BPoly`/`UPoly` functions
  directly (covered at value level), but no history-level statement is made for them.

  Axioms: propext, Classical.choice, Quot.sound only.
-/
import Algobra.Proofs.Tables4
import Algobra.Props.C18Tables3

namespace Algobra.C18Tables
open Algobra Tables

/-- `Tables.noRawOp` is `noRaw` -/
theorem noRawOp_eq (op : Op) : noRawOp op = noRaw op := by cases op <;> rfl

/-- `Tables.StoreOK4` is `StoreOKAll` -/
theorem storeOK4_iff {α : Type} {V : Nat → α → Prop} {s : St α} : StoreOK4 V s ↔ StoreOKAll V s :=
  ⟨fun h => ⟨h.1.1.1, h.1.1.2, h.1.2, h.2⟩, fun h => ⟨⟨⟨h.1, h.2.1⟩, h.2.2.1⟩, h.2.2.2⟩⟩

/-- C18-T28a. One step of ANY operation with `noRaw`, with the invariant. -/
theorem step_transparent_full {α : Type} {env env' : Env α} {V : Nat → α → Prop}
    (h : EnvAgreeB env env' V) (desc : FieldDesc) {s : St α} (hs : StoreOKAll V s) (op : Op)
    (hop : noRaw op = true) :
    step env' desc s op = step env desc s op ∧ StoreOKAll V (step env desc s op).1 := by
  obtain ⟨e, hv⟩ := step_full_agree h desc (storeOK4_iff.2 hs) op (by rw [noRawOp_eq]; exact hop)
  exact ⟨e, storeOK4_iff.1 hv⟩

/-- C18-T28 (`history_transparent_full`, corrected form).  Two environments that differ only in
    their field records (`EnvAgreeB`: records agree index by index on closed validity sets; valid
    in some field object ⇒ valid in field 0; `ofNat ofInt parse` produce valid representations;
    univariate and bivariate rings over field 0 with valid moduli / ideal generators, `env'` with
    the same rings over its own field 0); a store valid everywhere (`StoreOKAll`); ANY operations
    except the raw-data constructors (`noRaw`).  Then `runOps` returns the same final store and the
    same replies, and the final store is valid everywhere. -/
theorem history_transparent_all {α : Type} {env env' : Env α} {V : Nat → α → Prop}
    (h : EnvAgreeB env env' V) (desc : FieldDesc) (ops : List Op)
    (hops : ∀ op ∈ ops, noRaw op = true) {s : St α} (hs : StoreOKAll V s) :
    runOps env' desc s ops = runOps env desc s ops ∧ StoreOKAll V (runOps env desc s ops).1 := by
  obtain ⟨e, hv⟩ := runOps_full_agree h desc ops
    (fun op ho => by rw [noRawOp_eq]; exact hops op ho) (storeOK4_iff.2 hs)
  exact ⟨e, storeOK4_iff.1 hv⟩

/-- C18-T29. `history_transparent_full2` (Props/C18Tables2.lean) holds. -/
theorem history_transparent_full2_proved : history_transparent_full2 := by
  intro α env env' V desc ops s h hb hs hops
  exact (history_transparent_all
    ⟨h, fun i => ⟨(hb i).1, fun gs hgs f hf t ht => (hb i).2.2 gs hgs f hf t ht⟩,
      fun i => (hb i).2.1⟩ desc ops hops hs).1

/-- C18-T30 (`history_transparent_full_prime`).  ANY history over GF(p) without raw-data
    constructors, from any store valid everywhere: the TABLED algorithms (every field object tabled in
    any combination, rings over the tabled field object 0) give the same stores and replies as the
    untabled model. -/
theorem history_transparent_full_prime {p : Nat} (hp : p.Prime) (h32 : p - 1 < 2 ^ 32)
    (tabs : Nat → Bool × Bool) (env : Env Nat) (henv : ∀ i, env.fld i = primeOps p)
    (hring : ∀ i, (env.uring i).F = primeOps p ∧
      ∀ m, (env.uring i).modulus = some m → ∀ c ∈ m, c < p)
    (hbring : ∀ i, (env.bring i).F = primeOps p ∧
      ∀ gs, (env.bring i).ideal = some gs → ∀ f ∈ gs, ∀ t ∈ f, t.2 < p)
    (ops : List Op) (hops : ∀ op ∈ ops, noRaw op = true) {s : St Nat}
    (hs : StoreOKAll (fun _ a => a < p) s) :
    runOps { fld := fun i => primeOpsT p (tabs i).1 (tabs i).2,
             uring := fun i => { env.uring i with F := primeOpsT p (tabs 0).1 (tabs 0).2 },
             bring := fun i => { env.bring i with F := primeOpsT p (tabs 0).1 (tabs 0).2 } }
        (.prime p) s ops
      = runOps env (.prime p) s ops :=
  (history_transparent_all (envAgreeB_prime hp h32 tabs env henv hring hbring) _ ops hops hs).1

/-- the empty store is valid everywhere -/
theorem storeOKAll_empty {α : Type} (V : Nat → α → Prop) : StoreOKAll V ({} : St α) :=
  ⟨fun k r hk => (by cases hk), fun k r hk => (by cases hk), fun k r hk => (by cases hk),
    fun k r hk => (by cases hk)⟩

/-- extension fields: the environment relation for `extOps p n g` against `extOpsT` (logarithm
    table).  `ofNat/ofInt` validity comes from `ExtField.ofNat_spec/ofInt_spec` (needs the
    `Modulus` facts and `L.valid = ExtField.Valid`, both provided by `C01.define_ext_lawful`);
    validity of `parse` results (`Ext.parse` = `UPoly.parse` in the ring `F_p[a]/(g)`) is NOT
    available from existing lemmas and stays the explicit hypothesis `hparse`. -/
theorem envAgreeB_ext {p n : Nat} {g : List Nat} [Fact p.Prime] {h32 : p - 1 < 2 ^ 32} {K : Type}
    [Field K] (L : Lawful (extOps p n g) K) (hL : Assemble.FieldFacts L p n)
    (hcanon : ∀ a, L.valid a → UPoly.Canon (primeOps p) a) (hq : p ^ n ≤ 2 ^ 63)
    (M : ExtField.Modulus h32 n g) (hv : ∀ a, L.valid a ↔ ExtField.Valid h32 n a)
    (hparse : ∀ str v, (extOps p n g).parse str = .ok v → L.valid v)
    (tabs : Nat → Bool) (env : Env (UPoly Nat)) (henv : ∀ i, env.fld i = extOps p n g)
    (hring : ∀ i, (env.uring i).F = extOps p n g ∧
      ∀ m, (env.uring i).modulus = some m → ∀ c ∈ m, L.valid c)
    (hbring : ∀ i, (env.bring i).F = extOps p n g ∧
      ∀ gs, (env.bring i).ideal = some gs → ∀ f ∈ gs, ∀ t ∈ f, L.valid t.2) :
    EnvAgreeB env
      { fld := fun i => extOpsT p n g (tabs i),
        uring := fun i => { env.uring i with F := extOpsT p n g (tabs 0) },
        bring := fun i => { env.bring i with F := extOpsT p n g (tabs 0) } }
      (fun _ => L.valid) where
  u :=
    { base := ⟨(envAgree_ext L hL hcanon hq tabs env henv).agree,
        (envAgree_ext L hL hcanon hq tabs env henv).closed⟩
      down := fun _ _ h => h
      ofNat := fun i k => by rw [henv i]; exact (hv _).2 (ExtField.ofNat_spec M k).1
      ofInt := fun i z => by rw [henv i]; exact (hv _).2 (ExtField.ofInt_spec M z).1
      parse := fun i str v hpv => by rw [henv i] at hpv; exact hparse str v hpv
      ringOK := fun i => ⟨by rw [(hring i).1, henv 0], (hring i).2⟩
      ring' := fun _ => rfl }
  bringOK := fun i => ⟨by rw [(hbring i).1, henv 0], fun gs hgs f hf t ht => (hbring i).2 gs hgs f hf t ht⟩
  bring' := fun _ => rfl

/-- C18-T31 (`history_transparent_full_ext`).  ANY history without raw-data constructors over an
    extension field `extOps p n g` with the facts of `C01.define_ext_lawful`, logarithm tables
    on any field objects; the only hypothesis beyond those facts is the validity of `Ext.parse`
    results (`hparse`). -/
theorem history_transparent_full_ext {p n : Nat} {g : List Nat} [Fact p.Prime] {h32 : p - 1 < 2 ^ 32}
    {K : Type} [Field K] (L : Lawful (extOps p n g) K) (hL : Assemble.FieldFacts L p n)
    (hcanon : ∀ a, L.valid a → UPoly.Canon (primeOps p) a) (hq : p ^ n ≤ 2 ^ 63)
    (M : ExtField.Modulus h32 n g) (hv : ∀ a, L.valid a ↔ ExtField.Valid h32 n a)
    (hparse : ∀ str v, (extOps p n g).parse str = .ok v → L.valid v)
    (tabs : Nat → Bool) (env : Env (UPoly Nat)) (henv : ∀ i, env.fld i = extOps p n g)
    (hring : ∀ i, (env.uring i).F = extOps p n g ∧
      ∀ m, (env.uring i).modulus = some m → ∀ c ∈ m, L.valid c)
    (hbring : ∀ i, (env.bring i).F = extOps p n g ∧
      ∀ gs, (env.bring i).ideal = some gs → ∀ f ∈ gs, ∀ t ∈ f, L.valid t.2)
    (ops : List Op) (hops : ∀ op ∈ ops, noRaw op = true) {s : St (UPoly Nat)}
    (hs : StoreOKAll (fun _ => L.valid) s) :
    runOps { fld := fun i => extOpsT p n g (tabs i),
             uring := fun i => { env.uring i with F := extOpsT p n g (tabs 0) },
             bring := fun i => { env.bring i with F := extOpsT p n g (tabs 0) } }
        (.ext p n g) s ops
      = runOps env (.ext p n g) s ops :=
  (history_transparent_all (envAgreeB_ext L hL hcanon hq M hv hparse tabs env henv hring hbring)
    _ ops hops hs).1

/-! ### non-vacuity: a GF(7) history with ideal operations -/

/-- generators `3X² + 4Y`, `XY + 3` of an ideal of `F_7[X,Y]`; tables; `NewIdeal IsGroebner
    GroebnerBasis Copy MinimizeBasis ReduceBasis IsReduced IsMinimal Quotient Generators`, arithmetic
    with the generators of the reduced basis (`X + 5Y²`, `Y³ + 5`), observers, a bad line -/
def ops7i : List Op := [.eCtor 0 0 "gen" "", .eCtor 1 0 "one" "", .eBin 2 "plus" 0 1,
  .bCtor 0 0 "zero" "", .bSetCoef "set" 0 (2, 0) 0, .bSetCoef "inc" 0 (0, 1) 2,
  .bCtor 1 0 "zero" "", .bSetCoef "set" 1 (1, 1) 1, .bSetCoef "dec" 1 (0, 0) 2,
  .tables 0 true true none, .iNew 0 0 [0, 1], .iPred "groebner" 0, .iGroebner 1 0, .iCopy 2 1,
  .iXform "minimize" 2, .iXform "reduce" 2, .iPred "reduced" 2, .iPred "minimal" 1, .iXform "quotient" 0,
  .iGens [5, 6, 7] 2, .bBin 8 "times" 5 6, .bRem 9 8 [5, 6], .iObs 2, .iObs 0, .bObs 5, .bad "x"]

/-- T30 applied: every operation of `ops7i` has `noRaw`, the empty store is valid -/
example : runOps env7bT (.prime 7) {} ops7i = runOps env7b (.prime 7) {} ops7i :=
  history_transparent_full_prime (by norm_num) (by norm_num) (fun _ => (true, true)) env7b
    (fun _ => rfl) (fun i => ⟨rfl, fun m hm => by
      simp only [env7b, env7] at hm
      split at hm
      · cases hm; decide
      · cases hm⟩)
    (fun i => ⟨rfl, fun gs hgs => by
      simp only [env7b] at hgs
      split at hgs
      · cases hgs; decide
      · cases hgs⟩) ops7i (by decide) (storeOKAll_empty _)

/-- … and evaluated in both environments (the replies that list generator sets go through
    `Array.qsort`, which the kernel does not evaluate; the others are compared: predicates, flags,
    `Generators()` count, the product and remainder of the reduced basis, its first generator) -/
example : let pick := fun (l : List String) =>
      [11, 13, 14, 15, 16, 17, 18, 19, 20, 21, 24, 25].map (l.getD · "")
    pick (runOps env7bT (.prime 7) {} ops7i).2 = pick (runOps env7b (.prime 7) {} ops7i).2 ∧
    pick (runOps env7b (.prime 7) {} ops7i).2 = ["pred false", "ok flags=1,0,0", "ok", "ok",
      "pred true", "pred false", "ok", "ok 2", "ok 0#1:3:1/1:0:5/0:5:5/0:2:4", "ok ",
      "obs ld=1:0 lc=1 z=false m=false lt=1:0:1 s=X + 5Y^2", "bad-op"] := by
  decide +kernel

end Algobra.C18Tables
