/-
  Props/C16Static.lean — the STATIC half of property C16
  ("in-place operations change only their receiver; all others change nothing").

  Everything here is evaluated (kernel `decide`, no `native_decide`) on the REGENERATED may-write table
  `Algobra.Gen.effects` (/verif/extract/effects.go; `writes` = (parameter index, last path component),
  receiver = index 0, closed under a NAME-based call graph, call results assumed fresh). A value-returning
  method that starts writing through a parameter, or an in-place method that starts writing through an
  argument, changes the table and breaks these proofs. The dynamic half (histories, aliasing `recv = arg`,
  freshness of results) is the object-level `step` model and the differential harness, not this file.

  TRUTH OF THE CURRENT TABLE (stated exactly below):
   * in-place operations: NO exception — every may-write through a non-receiver parameter is `err`
     (`inplace_ops_write_receiver_or_err`);
   * value-returning operations: 161 of the 197 have only `err` may-writes (the re-wrap inside `hasErr`,
     which assigns `x.err` only when `x.err != nil`, i.e. never for error-free operands); 36 have further
     entries, ALL of which are artefacts of the extractor's approximations, none a write to an operand —
     established by reading /repo for each row (comments at `valueExceptionRows`). Root causes:
       (R1) constructor alias: `out := &Polynomial{baseRing: r, …}` / `&Ideal{ring: r.ring, …}` /
            `&QuotientRing{ring: r.ring, …}` is a FRESH object, but a composite literal that mentions a
            parameter is treated as an alias of it, so the in-place completion of the fresh object
            (`out.reduce()` ⇒ `Ideal.Reduce(out)`: `*out = *rem`; `SetCoef`; `qr.id = …`) is booked on `r`;
       (R2) name-based resolution: `a.field.element(1)` in primefield also resolves to
            `extfield.Field.element`, whose `f.polyRing.PolynomialFromUnsigned` also resolves to
            `bivariate.QuotientRing.PolynomialFromUnsigned` ⇒ (R1); likewise `Pow`, `Mult`, `Inv`, `Sub`
            resolve to the methods of all five element/polynomial types;
       (R3) receiver-root propagation: a callee's may-writes of ITS receiver are booked on the root of
            the receiver expression, so `f.baseRing.Polynomial(…)` books (R1) on `f`;
       (R4) `degs`, `vars`: the parser's per-call scratch object `monomialMatch` in `…FromString`.
     The entry `isGroebner` is, for the bivariate rows, the lazily written Gröbner flag of the ring's
     ideal reached through `reduce()`; it is guarded and never written for ideals inside quotient rings
     (Props/C20.lean, part C); for all other rows it is (R2).
-/
import Algobra.Proofs.Effects

namespace Algobra.C16Static
open Algobra Algobra.Gen Algobra.Effects

/-! ## classification of the exported API by method / function name -/

/-- operations documented as in-place: result in the receiver -/
def inplaceNames : List String := ["Add", "Sub", "Mult", "Prod", "SetNeg", "SetUnsigned", "SetScale", "SetCoef",
  "SetCoefPtr", "SetZero", "IncrementCoef", "DecrementCoef"]

/-- other documented mutators (not part of either family of C16): iterator advance, re-homing, the in-place
    reduction `Ideal.Reduce(f)` of its ARGUMENT, set-up calls, ideal transformers and the lazily caching
    `Is…` queries -/
def mutatorNames : List String := ["Next", "EmbedIn", "Reduce", "SetVarName", "SetVarNames", "ComputeTables",
  "ComputeMultTable", "MinimizeBasis", "ReduceBasis", "IsGroebner", "IsMinimal", "IsReduced"]

/-- value-returning operations: everything else that is exported (arithmetic `Plus … Trace`, `Copy`, `Scale`,
    `Normalize`, `Eval`, accessors, `QuoRem`, `Rem`, `Gcd`, `GroebnerBasis`, `Quotient`, `Interpolate`,
    constructors, predicates, printing, integer helpers, error helpers) -/
def valueNames : List String := [
  "BoundSqrt", "Active", "Current", "Factorize", "FactorizePrimePower", "Gcd", "NewCombinIter", "Pow",
  "Define", "AsBits", "Copy", "Equal", "Err", "Inv", "IsNonzero", "IsOne", "IsZero", "Minus", "NTerms",
  "Neg", "Plus", "String", "Times", "Trace", "Card", "Char", "Element", "ElementFromBits",
  "ElementFromSigned", "ElementFromString", "ElementFromUnsigned", "Elements", "MultGenerator", "One",
  "RandElement", "RegexElement", "VarName", "Zero", "DefRing", "DegLex", "DegRevLex", "Generators",
  "GroebnerBasis", "ShortString", "Lex", "BaseField", "Coef", "Eval", "IsMonomial", "Lc", "Ld", "Lt",
  "Normalize", "QuoRem", "Rem", "Scale", "SortedDegrees", "Interpolate", "NewIdeal", "Polynomial",
  "PolynomialFromSigned", "PolynomialFromString", "PolynomialFromUnsigned", "Quotient", "VarNames",
  "SPolynomial", "WDegLex", "WDegRevLex", "Lookup", "Error", "Is", "New", "Wrap", "AsSlice",
  "ElementFromSignedSlice", "ElementFromUnsignedSlice", "Uint", "Generator", "Coefs", "Degrees"]

def isInplace (f : Fn) : Bool := f.exported && nameIn f inplaceNames
def isMutator (f : Fn) : Bool := f.exported && nameIn f mutatorNames
/-- value-returning = exported and neither in-place nor a documented mutator. (The name list `valueNames` above
    documents the current API; a NEW exported function is value-returning by default and then has to satisfy
    `value_ops_write_only_err`, so a harmless new accessor changes nothing while a new function that writes
    through a parameter is reported.) -/
def isValueOp (f : Fn) : Bool := f.exported && !nameIn f inplaceNames && !nameIn f mutatorNames

/-- the three name classes are disjoint, and every name of `valueNames` that occurs is value-returning -/
theorem api_classified :
    (Gen.effects.all fun f => !f.exported ||
      (!(nameIn f inplaceNames && nameIn f mutatorNames) &&
       (!nameIn f valueNames || (!nameIn f inplaceNames && !nameIn f mutatorNames)))) = true := by
  decide +kernel

/-- the in-place and mutator classes are exactly as large as documented (a new function with one of these
    NAMES must be looked at); the value-returning class is open-ended -/
theorem class_sizes :
    ((Gen.effects.filter isInplace).length, (Gen.effects.filter isMutator).length) = (36, 15) := by
  decide +kernel

/-- the may-write sets of the functions satisfying `p` -/
def mayWrites (t : List Fn) (p : Fn → Bool) : List (String × List (Nat × String)) :=
  (t.filter p).map fun f => (f.key, f.writes)

def isErr (w : Nat × String) : Bool := code w.2 == code "err"

theorem isErr_iff (w : Nat × String) : isErr w = true ↔ w.2 = "err" := by
  simp only [isErr, beq_iff_eq]; exact code_eq_iff

/-- the functions satisfying `p` that have a may-write other than `err`, with those entries -/
def nonErrWrites (t : List Fn) (p : Fn → Bool) : List (String × List (Nat × String)) :=
  (t.filter fun f => p f && f.writes.any fun w => !isErr w).map fun f => (f.key, f.writes.filter fun w => !isErr w)

/-! ## in-place operations -/

/-- the complete may-write sets of the 36 in-place operations (all are methods: index 0 = receiver).
    Non-receiver entries are `err` only. Receiver entries beyond the obvious (`val`, `coefs`, `err`):
    `field` — `Prod` re-homes its receiver (`a.field = bb.field`); `*` — `*f = *h` in the polynomial
    `Mult`; `isGroebner` — for `bivariate.Polynomial.Mult/SetScale` the guarded flag of the ring's ideal
    via `reduce()`, elsewhere name-based resolution of `Mult`/`Prod` to the polynomial methods. -/
def inplaceRows : List (String × List (Nat × String)) := [
  ("binfield.Element.Add", [(0, "err"), (0, "val"), (1, "err")]),
  ("binfield.Element.Mult", [(0, "*"), (0, "coefs"), (0, "err"), (0, "field"), (0, "isGroebner"), (0, "val"), (1, "err")]),
  ("binfield.Element.Prod", [(0, "err"), (0, "field"), (0, "val"), (1, "err"), (2, "err")]),
  ("binfield.Element.SetNeg", []),
  ("binfield.Element.SetUnsigned", [(0, "val")]),
  ("binfield.Element.Sub", [(0, "coefs"), (0, "err"), (0, "val"), (1, "err")]),
  ("bivariate.Polynomial.Add", [(0, "coefs"), (0, "err"), (0, "val"), (1, "err")]),
  ("bivariate.Polynomial.DecrementCoef", [(0, "coefs"), (0, "err"), (0, "val"), (2, "err")]),
  ("bivariate.Polynomial.IncrementCoef", [(0, "coefs"), (0, "err"), (0, "val"), (2, "err")]),
  ("bivariate.Polynomial.Mult", [(0, "*"), (0, "coefs"), (0, "err"), (0, "isGroebner"), (0, "val"), (1, "err")]),
  ("bivariate.Polynomial.SetCoef", [(0, "coefs")]),
  ("bivariate.Polynomial.SetCoefPtr", [(0, "coefs")]),
  ("bivariate.Polynomial.SetScale", [(0, "*"), (0, "coefs"), (0, "err"), (0, "field"), (0, "isGroebner"), (0, "val"), (1, "err")]),
  ("bivariate.Polynomial.Sub", [(0, "coefs"), (0, "err"), (0, "val"), (1, "err")]),
  ("extfield.Element.Add", [(0, "coefs"), (0, "err"), (0, "val"), (1, "err")]),
  ("extfield.Element.Mult", [(0, "*"), (0, "coefs"), (0, "err"), (0, "field"), (0, "isGroebner"), (0, "val"), (1, "err")]),
  ("extfield.Element.Prod", [(0, "*"), (0, "coefs"), (0, "err"), (0, "field"), (0, "isGroebner"), (0, "val"), (1, "err"), (2, "err")]),
  ("extfield.Element.SetNeg", [(0, "val")]),
  ("extfield.Element.SetUnsigned", [(0, "*"), (0, "coefs"), (0, "err"), (0, "isGroebner"), (0, "val")]),
  ("extfield.Element.Sub", [(0, "coefs"), (0, "err"), (0, "val"), (1, "err")]),
  ("primefield.Element.Add", [(0, "err"), (0, "val"), (1, "err")]),
  ("primefield.Element.Mult", [(0, "*"), (0, "coefs"), (0, "err"), (0, "field"), (0, "isGroebner"), (0, "val"), (1, "err")]),
  ("primefield.Element.Prod", [(0, "err"), (0, "field"), (0, "val"), (1, "err"), (2, "err")]),
  ("primefield.Element.SetNeg", [(0, "val")]),
  ("primefield.Element.SetUnsigned", [(0, "val")]),
  ("primefield.Element.Sub", [(0, "err"), (0, "val"), (1, "err")]),
  ("univariate.Polynomial.Add", [(0, "coefs"), (0, "err"), (0, "val"), (1, "err")]),
  ("univariate.Polynomial.DecrementCoef", [(0, "coefs"), (0, "err"), (0, "val"), (2, "err")]),
  ("univariate.Polynomial.IncrementCoef", [(0, "coefs"), (0, "err"), (0, "val"), (2, "err")]),
  ("univariate.Polynomial.Mult", [(0, "*"), (0, "coefs"), (0, "err"), (0, "isGroebner"), (0, "val"), (1, "err")]),
  ("univariate.Polynomial.SetCoef", [(0, "coefs")]),
  ("univariate.Polynomial.SetCoefPtr", [(0, "coefs")]),
  ("univariate.Polynomial.SetNeg", [(0, "val")]),
  ("univariate.Polynomial.SetScale", [(0, "*"), (0, "coefs"), (0, "err"), (0, "field"), (0, "isGroebner"), (0, "val"), (1, "err")]),
  ("univariate.Polynomial.SetZero", [(0, "*"), (0, "coefs"), (0, "err"), (0, "isGroebner"), (0, "val")]),
  ("univariate.Polynomial.Sub", [(0, "coefs"), (0, "err"), (0, "val"), (1, "err")])]

theorem inplace_ops_may_writes : mayWrites Gen.effects isInplace = inplaceRows := by decide +kernel

theorem inplace_ops_are_methods : ((Gen.effects.filter isInplace).all fun f => !noRecv f) = true := by
  decide +kernel

/-- **in-place operations write, through parameters other than the receiver, only `err`**
    (no exception in the current table). `w.1` is the parameter index, 0 = receiver. -/
theorem inplace_ops_write_receiver_or_err {f : Fn} (hf : f ∈ Gen.effects) (hi : isInplace f = true)
    {w : Nat × String} (hw : w ∈ f.writes) : w.1 = 0 ∨ w.2 = "err" := by
  have h : ((Gen.effects.filter isInplace).all fun f => f.writes.all fun w => w.1 == 0 || isErr w) = true := by
    decide +kernel
  have := (List.all_eq_true.1 ((List.all_eq_true.1 h) f (List.mem_filter.2 ⟨hf, hi⟩))) w hw
  simp only [Bool.or_eq_true, beq_iff_eq, isErr_iff] at this
  exact this

/-! ## value-returning operations -/

/-- The value-returning operations with may-writes other than `err`, with exactly those entries.
    Every row is an artefact (see the header for R1–R4); no row is a write to an operand. -/
def valueExceptionRows : List (String × List (Nat × String)) := [
  -- binfield.Field constructors / enumeration: build fresh elements `&Element{field: f, val: …}` from machine
  -- words and nothing else. (R2): `ElementFromString`, `ElementFromUnsigned`, `Pow`, `Mult`, `reduce` also
  -- resolve to the extfield / polynomial methods of the same name (whence even `degs`, `vars`, R4, on `Element`).
  -- A binfield.Field has the fields extDeg, conwayPoly (a uint), varName: none of the entries can denote one.
  ("binfield.Field.Element", [(0, "*"), (0, "coefs"), (0, "degs"), (0, "isGroebner"), (0, "val"), (0, "vars")]),
  -- (R1) `a := &Element{field: f, val: val}` mentions both parameters; `a.reduce()` (R2) also resolves to the
  -- polynomial `reduce`. Parameter 1 is a `uint` passed by value: type-impossible
  ("binfield.Field.ElementFromBits", [(0, "*"), (0, "coefs"), (0, "isGroebner"), (0, "val"), (1, "*"), (1, "coefs"), (1, "isGroebner"), (1, "val")]),
  ("binfield.Field.ElementFromString", [(0, "*"), (0, "coefs"), (0, "isGroebner"), (0, "val")]),
  ("binfield.Field.Elements", [(0, "*"), (0, "coefs"), (0, "isGroebner"), (0, "val")]),
  ("binfield.Field.MultGenerator", [(0, "*"), (0, "coefs"), (0, "isGroebner"), (0, "val")]),
  -- `point[i].Pow(deg[i])`: `Pow` is value-returning; (R2) `Pow` resolves to the polynomial `Pow` rows below,
  -- whose receiver entries are booked on `point` (parameter 1). `f` (parameter 0) has only `err`
  ("bivariate.Polynomial.Eval", [(1, "*"), (1, "coefs"), (1, "isGroebner"), (1, "val")]),
  -- `out := f.baseRing.Polynomial({(0,0): 1})`, `g := f.Copy()`, then `out.Mult(g)`, `g.Mult(g)`: only fresh
  -- objects are multiplied in place; (R3)+(R1) via `f.baseRing.Polynomial`. `isGroebner`: guarded flag
  ("bivariate.Polynomial.Pow", [(0, "*"), (0, "coefs"), (0, "isGroebner"), (0, "val")]),
  -- (R1) `id := &Ideal{ring: r.ring, …}`; `id.generators = append(…, g.Copy())` fills the FRESH ideal
  ("bivariate.QuotientRing.NewIdeal", [(0, "generators")]),
  -- (R1) `out := &Polynomial{baseRing: r, coefs: m}; out.reduce()` — `*`, `coefs`, `val` are the fresh `out`;
  -- `isGroebner` is the guarded flag of `r.id` (C20 part C). Same for the three `PolynomialFrom…` (+ R4)
  ("bivariate.QuotientRing.Polynomial", [(0, "*"), (0, "coefs"), (0, "isGroebner"), (0, "val")]),
  ("bivariate.QuotientRing.PolynomialFromSigned", [(0, "*"), (0, "coefs"), (0, "isGroebner"), (0, "val")]),
  ("bivariate.QuotientRing.PolynomialFromString", [(0, "*"), (0, "coefs"), (0, "degs"), (0, "isGroebner"), (0, "val"), (0, "vars")]),
  ("bivariate.QuotientRing.PolynomialFromUnsigned", [(0, "*"), (0, "coefs"), (0, "isGroebner"), (0, "val")]),
  -- (R1) `qr := &QuotientRing{ring: r.ring, id: id}` with `id` REBOUND to `id.GroebnerBasis()` (+`ReduceBasis()`
  -- on that fresh basis) or to `id.Copy()`; `g.EmbedIn(qr, false)` re-homes the generators of that fresh
  -- ideal. The extractor skips rebinding of a parameter name, so the fresh ideal's writes are booked on
  -- parameter 1 (`generators`, `isMinimal`, `isReduced`, `baseRing`) and, through `qr`, on parameter 0.
  -- The argument ideal is only read (flag test, `GroebnerBasis`/`Copy`); reading ring.go confirms
  ("bivariate.QuotientRing.Quotient", [(0, "*"), (0, "baseRing"), (0, "coefs"), (0, "isGroebner"), (0, "val"), (1, "*"), (1, "baseRing"), (1, "coefs"), (1, "generators"), (1, "isGroebner"), (1, "isMinimal"), (1, "isReduced"), (1, "val")]),
  -- Euclid on FRESH polynomials: `r0 := conwayPoly.Normalize()` (a copy), `r0.EmbedIn(…)`, `r1 := a.val.Normalize()`,
  -- `i0 := polyRing.Zero()`, `i1 := polyRing.Polynomial(…)`; `rem.SetScale`, `i0.Sub(quo[0].Mult(i1))` mutate
  -- those; (R2)/(R3) via `a.field.polyRing.…`, `a.field.logTable.lookup…`
  ("extfield.Element.Inv", [(0, "*"), (0, "coefs"), (0, "isGroebner"), (0, "val")]),
  -- extfield.Field constructors / enumeration / random: every one builds `&Element{field: f, val: f.polyRing.
  -- PolynomialFrom…(…)}`; the univariate constructors create a fresh polynomial and reduce IT modulo the
  -- Conway polynomial (univariate `Ideal.Reduce` writes only its argument). (R3) books the callee's (R1)/(R2)
  -- entries on `f`. `f.conwayPoly` / `f.polyRing` are used only through value-returning univariate methods
  ("extfield.Field.Element", [(0, "*"), (0, "coefs"), (0, "degs"), (0, "isGroebner"), (0, "val"), (0, "vars")]),
  ("extfield.Field.ElementFromSigned", [(0, "*"), (0, "coefs"), (0, "isGroebner"), (0, "val")]),
  ("extfield.Field.ElementFromSignedSlice", [(0, "*"), (0, "coefs"), (0, "isGroebner"), (0, "val")]),
  ("extfield.Field.ElementFromString", [(0, "*"), (0, "coefs"), (0, "degs"), (0, "isGroebner"), (0, "val"), (0, "vars")]),
  ("extfield.Field.ElementFromUnsigned", [(0, "*"), (0, "coefs"), (0, "isGroebner"), (0, "val")]),
  ("extfield.Field.ElementFromUnsignedSlice", [(0, "*"), (0, "coefs"), (0, "isGroebner"), (0, "val")]),
  ("extfield.Field.Elements", [(0, "*"), (0, "coefs"), (0, "isGroebner"), (0, "val")]),
  ("extfield.Field.MultGenerator", [(0, "*"), (0, "coefs"), (0, "isGroebner"), (0, "val")]),
  ("extfield.Field.RandElement", [(0, "*"), (0, "coefs"), (0, "isGroebner"), (0, "val")]),
  -- `a.field.element(0)` / `a.field.ElementFromSigned(i0)`: fresh results; (R2) `element` also resolves to
  -- `extfield.Field.element` (⇒ polynomial constructors), (R3) books it on `a`
  ("primefield.Element.Inv", [(0, "*"), (0, "coefs"), (0, "isGroebner"), (0, "val")]),
  -- `out := a.field.element(1)`, `b := a.Copy()`, `out.Mult(b)`, `b.Mult(b)`: fresh objects; (R2)+(R3) as for `Inv`
  ("primefield.Element.Pow", [(0, "*"), (0, "coefs"), (0, "isGroebner"), (0, "val")]),
  -- primefield.Field constructors / enumeration / random: `&Element{field: f, val: …}`; (R2) `element`,
  -- `ElementFromUnsigned`, `Pow` resolve to the extfield methods. A primefield.Field has fields char, addTable,
  -- multTable only
  ("primefield.Field.Element", [(0, "*"), (0, "coefs"), (0, "degs"), (0, "isGroebner"), (0, "val"), (0, "vars")]),
  ("primefield.Field.ElementFromSigned", [(0, "*"), (0, "coefs"), (0, "isGroebner"), (0, "val")]),
  ("primefield.Field.ElementFromString", [(0, "*"), (0, "coefs"), (0, "isGroebner"), (0, "val")]),
  ("primefield.Field.ElementFromUnsigned", [(0, "*"), (0, "coefs"), (0, "isGroebner"), (0, "val")]),
  ("primefield.Field.Elements", [(0, "*"), (0, "coefs"), (0, "isGroebner"), (0, "val")]),
  ("primefield.Field.MultGenerator", [(0, "*"), (0, "coefs"), (0, "isGroebner"), (0, "val")]),
  ("primefield.Field.RandElement", [(0, "*"), (0, "coefs"), (0, "isGroebner"), (0, "val")]),
  -- as `bivariate.Polynomial.Pow`: `out := f.baseRing.Polynomial([1])`, `g := f.Copy()`, `out = out.Mult(g)`
  ("univariate.Polynomial.Pow", [(0, "*"), (0, "coefs"), (0, "isGroebner"), (0, "val")]),
  -- `out := r.zeroWithCap(n)` is a call result (fresh); the entries come from `r.baseField.ElementFromSigned(c)`
  -- / `…Unsigned(c)` by (R2)+(R3) (resolves to the extfield constructors above)
  ("univariate.QuotientRing.PolynomialFromSigned", [(0, "*"), (0, "coefs"), (0, "isGroebner"), (0, "val")]),
  ("univariate.QuotientRing.PolynomialFromUnsigned", [(0, "*"), (0, "coefs"), (0, "isGroebner"), (0, "val")]),
  -- (R1) `qr := &QuotientRing{ring: r.ring, id: nil}`; `qr.id = idConv` completes the FRESH ring
  ("univariate.QuotientRing.Quotient", [(0, "id")])]

/-- exact list of the non-`err` may-writes of value-returning operations -/
theorem value_ops_nonerr_writes : nonErrWrites Gen.effects isValueOp = valueExceptionRows := by
  decide +kernel

def valueExceptions : List String := valueExceptionRows.map (·.1)

/-- **for every value-returning operation outside the 36 commented exceptions, every may-write entry is
    `(_, "err")`** — the error re-wrap inside `hasErr`, which only touches operands that already carry
    an error. -/
theorem value_ops_write_only_err {f : Fn} (hf : f ∈ Gen.effects) (hv : isValueOp f = true)
    (hk : f.key ∉ valueExceptions) {w : Nat × String} (hw : w ∈ f.writes) : w.2 = "err" := by
  cases he : isErr w with
  | true => exact (isErr_iff w).1 he
  | false =>
    exfalso
    apply hk
    have hm : (f.key, f.writes.filter fun w => !isErr w) ∈ nonErrWrites Gen.effects isValueOp := by
      refine List.mem_map.2 ⟨f, List.mem_filter.2 ⟨hf, ?_⟩, rfl⟩
      simp only [hv, Bool.true_and, List.any_eq_true]
      exact ⟨w, hw, by simp [he]⟩
    rw [value_ops_nonerr_writes] at hm
    exact List.mem_map.2 ⟨_, hm, rfl⟩

/-- For the operations C16 is about first of all — value-returning METHODS OF ELEMENTS AND POLYNOMIALS
    (`Plus`, `Minus`, `Times`, `Neg`, `Inv`, `Pow`, `Trace`, `Copy`, `Scale`, `Normalize`, `Eval`, `Coef`,
    `Lc`, `Lt`, `Ld`, `Coefs`, `Degrees`, `SortedDegrees`, `QuoRem`, `Rem`, `String`, `Equal`, `IsZero`, …) —
    the exceptions are just these six (`Pow`/`Inv`/`Eval`: fresh accumulators `out`, `g := f.Copy()`,
    `r0`, `i0`, `i1`; the entries come from R2/R3 via `a.field.element(…)`, `f.baseRing.Polynomial(…)`,
    `point[i].Pow(…)`). -/
theorem operand_value_ops_exceptions :
    ((Gen.effects.filter fun f => isValueOp f && (code f.recv == code "Element" || code f.recv == code "Polynomial")
        && f.writes.any fun w => !isErr w).map (·.key)) =
      ["bivariate.Polynomial.Eval", "bivariate.Polynomial.Pow", "extfield.Element.Inv",
       "primefield.Element.Inv", "primefield.Element.Pow", "univariate.Polynomial.Pow"] := by
  decide +kernel

/-- all non-`err` entries of the exception rows are fields of per-call objects (`*`, `coefs`, `val`:
    the fresh polynomial / element under construction; `degs`, `vars`: parser scratch), the guarded flag
    `isGroebner`, or belong to the three constructor rows `NewIdeal`, `Quotient` (×2) -/
theorem value_exception_fields :
    (valueExceptionRows.all fun r =>
      memC r.1 ["bivariate.QuotientRing.NewIdeal", "bivariate.QuotientRing.Quotient", "univariate.QuotientRing.Quotient"] ||
      r.2.all fun w => memC w.2 ["*", "coefs", "val", "degs", "vars", "isGroebner"]) = true := by
  decide +kernel

/-! ## the remaining documented mutators (for completeness: exact may-write sets) -/

def mutatorRows : List (String × List (Nat × String)) := [
  ("auxmath.CombinIter.Next", [(0, "atEnd"), (0, "slice")]),
  ("binfield.Field.SetVarName", [(0, "varName")]),
  ("bivariate.Ideal.IsGroebner", [(0, "err"), (0, "isGroebner")]),
  ("bivariate.Ideal.IsMinimal", [(0, "err"), (0, "generators"), (0, "isGroebner"), (0, "isMinimal")]),
  ("bivariate.Ideal.IsReduced", [(0, "err"), (0, "generators"), (0, "isGroebner"), (0, "isMinimal"), (0, "isReduced")]),
  ("bivariate.Ideal.MinimizeBasis", [(0, "err"), (0, "generators"), (0, "isGroebner"), (0, "isMinimal"), (0, "isReduced")]),
  ("bivariate.Ideal.Reduce", [(0, "err"), (0, "isGroebner"), (1, "*"), (1, "err")]),
  ("bivariate.Ideal.ReduceBasis", [(0, "err"), (0, "generators"), (0, "isGroebner"), (0, "isMinimal"), (0, "isReduced")]),
  ("bivariate.Polynomial.EmbedIn", [(0, "*"), (0, "baseRing"), (0, "coefs"), (0, "err"), (0, "isGroebner"), (0, "val")]),
  ("bivariate.QuotientRing.SetVarNames", [(0, "varNames")]),
  ("extfield.Field.ComputeMultTable", [(0, "*"), (0, "coefs"), (0, "err"), (0, "isGroebner"), (0, "logTable"), (0, "val")]),
  ("primefield.Field.ComputeTables", [(0, "addTable"), (0, "multTable")]),
  ("univariate.Ideal.Reduce", [(0, "err"), (1, "*"), (1, "coefs"), (1, "err"), (1, "isGroebner"), (1, "val")]),
  ("univariate.Polynomial.EmbedIn", [(0, "*"), (0, "baseRing"), (0, "coefs"), (0, "err"), (0, "isGroebner"), (0, "val")]),
  ("univariate.QuotientRing.SetVarName", [(0, "varName")])]

theorem mutator_may_writes : mayWrites Gen.effects isMutator = mutatorRows := by decide +kernel

-- non-vacuity: the classes are inhabited by the expected functions
example : (Gen.effects.any fun f => code f.key == code "primefield.Element.Plus" && isValueOp f) = true := by
  decide +kernel
example : (Gen.effects.any fun f => code f.key == code "bivariate.Polynomial.Mult" && isInplace f) = true := by
  decide +kernel

end Algobra.C16Static
