/-
  Props/C16Static.lean — the STATIC half of property C16
  ("in-place operations change only their receiver; all others change nothing").

  Everything here is evaluated (kernel `decide`, no `native_decide`) on the REGENERATED may-write table
  `Algobra.Gen.effects` (/verif/extract/effects.go; `writes` = (parameter index, last path component),
  receiver = index 0, closed under a TYPE-resolved call graph: go/types, interface calls go to the
  implementers in the repository). A value-returning method that starts writing through a parameter, or an
  in-place method that starts writing through an argument, changes the table and breaks these proofs. The
  dynamic half (histories, aliasing `recv = arg`, freshness of results) is the object-level `step` model and
  the differential harness, not this file. The assumptions of the extractor (header of effects.go: call
  results are fresh, composite literals are fresh objects whose fields initialised from a parameter keep
  referring to it, functions outside the repository write nothing but copy/delete/sort) are part of the
  trusted base.

  TRUTH OF THE CURRENT TABLE (stated exactly below):
   * in-place operations: NO exception — every may-write through a non-receiver parameter is `err`
     (`inplace_ops_write_receiver_or_err`), and the receiver entries are fields of the receiver's own type
     plus the guarded Gröbner flag;
   * value-returning operations: 191 of the 197 have only `err` may-writes (the re-wrap inside `hasErr`,
     which assigns `x.err` only when `x.err != nil`, i.e. never for error-free operands). The 6 others:
       - five bivariate constructors / `Pow` carry exactly `(0, "isGroebner")`: a REAL may-write — the new
         polynomial is reduced (`reduce()` → `Ideal.Reduce` → `IsGroebner()`), and `IsGroebner` caches its
         answer in the flag of the ring's ideal. The write is guarded (only when the flag is 0) and never
         happens for ideals inside quotient rings (flag 1: Props/C20.lean, part C);
       - `bivariate.QuotientRing.Quotient`: the parameter NAME `id` is re-bound to a fresh object
         (`id = id.GroebnerBasis()` / `id = id.Copy()`) before `id.ReduceBasis()` and `g.EmbedIn(qr, false)`
         work on it; the extractor ignores re-binding of a parameter name (assumption A4), so the writes to
         the fresh ideal are booked on parameter 1. The argument ideal itself is only read.
     The artefacts of the former name-based extractor (36 rows: `coefs`, `val`, `*`, `degs`, `vars`, … on
     constructors, `Pow`, `Inv`, `Eval`) are gone.
-/
import Algobra.Proofs.Effects

namespace Algobra.C16Static
open Algobra Algobra.Gen Algobra.Effects

/-! ## classification of the exported API by method / function name -/

/-- operations documented as in-place: result in the receiver -/
def inplaceNames : List String := ["Add", "Sub", "Mult", "Prod", "SetNeg", "SetUnsigned", "SetScale", "SetCoef",
  "SetCoefPtr", "SetZero", "IncrementCoef", "DecrementCoef"]

/-- other documented mutators (not part of either family of C16): iterator advance, re-homing, the in-place
    reduction `Ideal.Reduce(f)` of its ARGUMENT, set-up calls, ideal transformers and the lazily caching
    `Is…` queries -/
def mutatorNames : List String := ["Next", "EmbedIn", "Reduce", "SetVarName", "SetVarNames", "ComputeTables",
  "ComputeMultTable", "MinimizeBasis", "ReduceBasis", "IsGroebner", "IsMinimal", "IsReduced"]

/-- value-returning operations: everything else that is exported (arithmetic `Plus … Trace`, `Copy`, `Scale`,
    `Normalize`, `Eval`, accessors, `QuoRem`, `Rem`, `Gcd`, `GroebnerBasis`, `Quotient`, `Interpolate`,
    constructors, predicates, printing, integer helpers, error helpers) -/
def valueNames : List String := [
  "BoundSqrt", "Active", "Current", "Factorize", "FactorizePrimePower", "Gcd", "NewCombinIter", "Pow",
  "Define", "AsBits", "Copy", "Equal", "Err", "Inv", "IsNonzero", "IsOne", "IsZero", "Minus", "NTerms",
  "Neg", "Plus", "String", "Times", "Trace", "Card", "Char", "Element", "ElementFromBits",
  "ElementFromSigned", "ElementFromString", "ElementFromUnsigned", "Elements", "MultGenerator", "One",
  "RandElement", "RegexElement", "VarName", "Zero", "DefRing", "DegLex", "DegRevLex", "Generators",
  "GroebnerBasis", "ShortString", "Lex", "BaseField", "Coef", "Eval", "IsMonomial", "Lc", "Ld", "Lt",
  "Normalize", "QuoRem", "Rem", "Scale", "SortedDegrees", "Interpolate", "NewIdeal", "Polynomial",
  "PolynomialFromSigned", "PolynomialFromString", "PolynomialFromUnsigned", "Quotient", "VarNames",
  "SPolynomial", "WDegLex", "WDegRevLex", "Lookup", "Error", "Is", "New", "Wrap", "AsSlice",
  "ElementFromSignedSlice", "ElementFromUnsignedSlice", "Uint", "Generator", "Coefs", "Degrees"]

def isInplace (f : Fn) : Bool := f.exported && nameIn f inplaceNames
def isMutator (f : Fn) : Bool := f.exported && nameIn f mutatorNames
/-- value-returning = exported and neither in-place nor a documented mutator. (The name list `valueNames` above
    documents the current API; a NEW exported function is value-returning by default and then has to satisfy
    `value_ops_write_only_err`, so a harmless new accessor changes nothing while a new function that writes
    through a parameter is reported.) -/
def isValueOp (f : Fn) : Bool := f.exported && !nameIn f inplaceNames && !nameIn f mutatorNames

/-- the three name classes are disjoint, and every name of `valueNames` that occurs is value-returning -/
theorem api_classified :
    (Gen.effects.all fun f => !f.exported ||
      (!(nameIn f inplaceNames && nameIn f mutatorNames) &&
       (!nameIn f valueNames || (!nameIn f inplaceNames && !nameIn f mutatorNames)))) = true := by
  decide +kernel

/-- the in-place and mutator classes are exactly as large as documented (a new function with one of these
    NAMES must be looked at); the value-returning class is open-ended -/
theorem class_sizes :
    ((Gen.effects.filter isInplace).length, (Gen.effects.filter isMutator).length) = (36, 15) := by
  decide +kernel

/-- the may-write sets of the functions satisfying `p` -/
def mayWrites (t : List Fn) (p : Fn → Bool) : List (String × List (Nat × String)) :=
  (t.filter p).map fun f => (f.key, f.writes)

def isErr (w : Nat × String) : Bool := code w.2 == code "err"

theorem isErr_iff (w : Nat × String) : isErr w = true ↔ w.2 = "err" := by
  simp only [isErr, beq_iff_eq]; exact code_eq_iff

/-- the functions satisfying `p` that have a may-write other than `err`, with those entries -/
def nonErrWrites (t : List Fn) (p : Fn → Bool) : List (String × List (Nat × String)) :=
  (t.filter fun f => p f && f.writes.any fun w => !isErr w).map fun f => (f.key, f.writes.filter fun w => !isErr w)

/-! ## in-place operations -/

/-- the complete may-write sets of the 36 in-place operations (all are methods: index 0 = receiver).
    Non-receiver entries are `err` only. Receiver entries beyond the obvious (`val`, `coefs`, `err`):
    `field` — `Prod` re-homes its receiver (`a.field = bb.field`; reached from `Mult`, `SetScale`);
    `*` — `*f = *h` in the polynomial `Mult`; `isGroebner` — for `bivariate.Polynomial.Mult` the guarded
    flag of the ring's ideal via `reduce()` (a real may-write through the receiver, see C20 part C). -/
def inplaceRows : List (String × List (Nat × String)) := [
  ("binfield.Element.Add", [(0, "err"), (0, "val"), (1, "err")]),
  ("binfield.Element.Mult", [(0, "err"), (0, "field"), (0, "val"), (1, "err")]),
  ("binfield.Element.Prod", [(0, "err"), (0, "field"), (0, "val"), (1, "err"), (2, "err")]),
  ("binfield.Element.SetNeg", []),
  ("binfield.Element.SetUnsigned", [(0, "val")]),
  ("binfield.Element.Sub", [(0, "err"), (0, "val"), (1, "err")]),
  ("bivariate.Polynomial.Add", [(0, "coefs"), (0, "err"), (0, "val"), (1, "err")]),
  ("bivariate.Polynomial.DecrementCoef", [(0, "coefs"), (0, "err"), (0, "val"), (2, "err")]),
  ("bivariate.Polynomial.IncrementCoef", [(0, "coefs"), (0, "err"), (0, "val"), (2, "err")]),
  ("bivariate.Polynomial.Mult", [(0, "*"), (0, "err"), (0, "isGroebner"), (1, "err")]),
  ("bivariate.Polynomial.SetCoef", [(0, "coefs")]),
  ("bivariate.Polynomial.SetCoefPtr", [(0, "coefs")]),
  ("bivariate.Polynomial.SetScale", [(0, "coefs"), (0, "err"), (0, "field"), (0, "val"), (1, "err")]),
  ("bivariate.Polynomial.Sub", [(0, "coefs"), (0, "err"), (0, "val"), (1, "err")]),
  ("extfield.Element.Add", [(0, "coefs"), (0, "err"), (0, "val"), (1, "err")]),
  ("extfield.Element.Mult", [(0, "coefs"), (0, "err"), (0, "field"), (0, "val"), (1, "err")]),
  ("extfield.Element.Prod", [(0, "coefs"), (0, "err"), (0, "field"), (0, "val"), (1, "err"), (2, "err")]),
  ("extfield.Element.SetNeg", [(0, "val")]),
  ("extfield.Element.SetUnsigned", [(0, "val")]),
  ("extfield.Element.Sub", [(0, "coefs"), (0, "err"), (0, "val"), (1, "err")]),
  ("primefield.Element.Add", [(0, "err"), (0, "val"), (1, "err")]),
  ("primefield.Element.Mult", [(0, "err"), (0, "field"), (0, "val"), (1, "err")]),
  ("primefield.Element.Prod", [(0, "err"), (0, "field"), (0, "val"), (1, "err"), (2, "err")]),
  ("primefield.Element.SetNeg", [(0, "val")]),
  ("primefield.Element.SetUnsigned", [(0, "val")]),
  ("primefield.Element.Sub", [(0, "err"), (0, "val"), (1, "err")]),
  ("univariate.Polynomial.Add", [(0, "coefs"), (0, "err"), (0, "val"), (1, "err")]),
  ("univariate.Polynomial.DecrementCoef", [(0, "coefs"), (0, "err"), (0, "val"), (2, "err")]),
  ("univariate.Polynomial.IncrementCoef", [(0, "coefs"), (0, "err"), (0, "val"), (2, "err")]),
  ("univariate.Polynomial.Mult", [(0, "*"), (0, "coefs"), (0, "err"), (0, "val"), (1, "err")]),
  ("univariate.Polynomial.SetCoef", [(0, "coefs")]),
  ("univariate.Polynomial.SetCoefPtr", [(0, "coefs")]),
  ("univariate.Polynomial.SetNeg", [(0, "val")]),
  ("univariate.Polynomial.SetScale", [(0, "coefs"), (0, "err"), (0, "field"), (0, "val"), (1, "err")]),
  ("univariate.Polynomial.SetZero", [(0, "coefs"), (0, "val")]),
  ("univariate.Polynomial.Sub", [(0, "coefs"), (0, "err"), (0, "val"), (1, "err")])]

theorem inplace_ops_may_writes : mayWrites Gen.effects isInplace = inplaceRows := by decide +kernel

theorem inplace_ops_are_methods : ((Gen.effects.filter isInplace).all fun f => !noRecv f) = true := by
  decide +kernel

/-- **in-place operations write, through parameters other than the receiver, only `err`**
    (no exception in the current table). `w.1` is the parameter index, 0 = receiver. -/
theorem inplace_ops_write_receiver_or_err {f : Fn} (hf : f ∈ Gen.effects) (hi : isInplace f = true)
    {w : Nat × String} (hw : w ∈ f.writes) : w.1 = 0 ∨ w.2 = "err" := by
  have h : ((Gen.effects.filter isInplace).all fun f => f.writes.all fun w => w.1 == 0 || isErr w) = true := by
    decide +kernel
  have := (List.all_eq_true.1 ((List.all_eq_true.1 h) f (List.mem_filter.2 ⟨hf, hi⟩))) w hw
  simp only [Bool.or_eq_true, beq_iff_eq, isErr_iff] at this
  exact this

/-! ## value-returning operations -/

/-- The value-returning operations with may-writes other than `err`, with exactly those entries
    (explained in the header: the guarded Gröbner flag, and the re-bound parameter name in `Quotient`). -/
def valueExceptionRows : List (String × List (Nat × String)) := [
  -- `out := f.baseRing.Polynomial(…)`, `g := f.Copy()`, `out.Mult(g)`: the products are reduced modulo the
  -- ring's ideal; `IsGroebner()` may cache its answer in that ideal (guarded flag)
  ("bivariate.Polynomial.Pow", [(0, "isGroebner")]),
  -- `out := &Polynomial{baseRing: r, coefs: m}; out.reduce()`: the same flag, reached through the field
  -- `baseRing` of the fresh polynomial, which was initialised from the receiver `r`
  ("bivariate.QuotientRing.Polynomial", [(0, "isGroebner")]),
  ("bivariate.QuotientRing.PolynomialFromSigned", [(0, "isGroebner")]),
  ("bivariate.QuotientRing.PolynomialFromString", [(0, "isGroebner")]),
  ("bivariate.QuotientRing.PolynomialFromUnsigned", [(0, "isGroebner")]),
  -- `id = id.GroebnerBasis(); _ = id.ReduceBasis()` / `id = id.Copy()`; `g.EmbedIn(qr, false)` for the generators
  -- of that FRESH ideal: booked on the parameter whose name was re-bound (extractor assumption A4)
  ("bivariate.QuotientRing.Quotient", [(1, "*"), (1, "baseRing"), (1, "generators"), (1, "isGroebner"), (1, "isMinimal"), (1, "isReduced")])]

/-- exact list of the non-`err` may-writes of value-returning operations -/
theorem value_ops_nonerr_writes : nonErrWrites Gen.effects isValueOp = valueExceptionRows := by
  decide +kernel

def valueExceptions : List String := valueExceptionRows.map (·.1)

/-- **for every value-returning operation outside the 6 commented exceptions, every may-write entry is
    `(_, "err")`** — the error re-wrap inside `hasErr`, which only touches operands that already carry
    an error. -/
theorem value_ops_write_only_err {f : Fn} (hf : f ∈ Gen.effects) (hv : isValueOp f = true)
    (hk : f.key ∉ valueExceptions) {w : Nat × String} (hw : w ∈ f.writes) : w.2 = "err" := by
  cases he : isErr w with
  | true => exact (isErr_iff w).1 he
  | false =>
    exfalso
    apply hk
    have hm : (f.key, f.writes.filter fun w => !isErr w) ∈ nonErrWrites Gen.effects isValueOp := by
      refine List.mem_map.2 ⟨f, List.mem_filter.2 ⟨hf, ?_⟩, rfl⟩
      simp only [hv, Bool.true_and, List.any_eq_true]
      exact ⟨w, hw, by simp [he]⟩
    rw [value_ops_nonerr_writes] at hm
    exact List.mem_map.2 ⟨_, hm, rfl⟩

/-- For the operations C16 is about first of all — value-returning METHODS OF ELEMENTS AND POLYNOMIALS
    (`Plus`, `Minus`, `Times`, `Neg`, `Inv`, `Pow`, `Trace`, `Copy`, `Scale`, `Normalize`, `Eval`, `Coef`,
    `Lc`, `Lt`, `Ld`, `Coefs`, `Degrees`, `SortedDegrees`, `QuoRem`, `Rem`, `String`, `Equal`, `IsZero`, …) —
    the only exception is `bivariate.Polynomial.Pow` (guarded flag, see above). -/
theorem operand_value_ops_exceptions :
    ((Gen.effects.filter fun f => isValueOp f && (code f.recv == code "Element" || code f.recv == code "Polynomial")
        && f.writes.any fun w => !isErr w).map (·.key)) = ["bivariate.Polynomial.Pow"] := by
  decide +kernel

/-- **full strength, flag aside**: a value-returning operation other than `bivariate.QuotientRing.Quotient`
    may-writes, through any parameter, nothing but `err` (of an operand that already carries an error) and the
    guarded Gröbner flag `isGroebner` of the ring's ideal. -/
theorem value_ops_write_only_err_or_flag {f : Fn} (hf : f ∈ Gen.effects) (hv : isValueOp f = true)
    (hk : f.key ≠ "bivariate.QuotientRing.Quotient") {w : Nat × String} (hw : w ∈ f.writes) :
    w.2 = "err" ∨ w.2 = "isGroebner" := by
  have h : ((Gen.effects.filter fun f => isValueOp f && !(code f.key == code "bivariate.QuotientRing.Quotient")).all
      fun f => f.writes.all fun w => isErr w || code w.2 == code "isGroebner") = true := by decide +kernel
  have hk' : (code f.key == code "bivariate.QuotientRing.Quotient") = false := by
    cases hc : (code f.key == code "bivariate.QuotientRing.Quotient") with
    | false => rfl
    | true => exact absurd (code_inj (beq_iff_eq.1 hc)) hk
  have := (List.all_eq_true.1 ((List.all_eq_true.1 h) f (List.mem_filter.2 ⟨hf, by simp [hv, hk']⟩))) w hw
  simp only [Bool.or_eq_true, beq_iff_eq, isErr_iff] at this
  exact this.imp id code_inj

/-- all non-`err` entries of the exception rows are the guarded flag `isGroebner`, except in the constructor
    row `Quotient` -/
theorem value_exception_fields :
    (valueExceptionRows.all fun r =>
      memC r.1 ["bivariate.QuotientRing.Quotient"] || r.2.all fun w => memC w.2 ["isGroebner"]) = true := by
  decide +kernel

/-! ## the remaining documented mutators (for completeness: exact may-write sets) -/

def mutatorRows : List (String × List (Nat × String)) := [
  ("auxmath.CombinIter.Next", [(0, "atEnd"), (0, "slice")]),
  ("binfield.Field.SetVarName", [(0, "varName")]),
  ("bivariate.Ideal.IsGroebner", [(0, "err"), (0, "isGroebner")]),
  ("bivariate.Ideal.IsMinimal", [(0, "err"), (0, "generators"), (0, "isGroebner"), (0, "isMinimal")]),
  ("bivariate.Ideal.IsReduced", [(0, "err"), (0, "generators"), (0, "isGroebner"), (0, "isMinimal"), (0, "isReduced")]),
  ("bivariate.Ideal.MinimizeBasis", [(0, "err"), (0, "generators"), (0, "isGroebner"), (0, "isMinimal"), (0, "isReduced")]),
  ("bivariate.Ideal.Reduce", [(0, "err"), (0, "isGroebner"), (1, "*"), (1, "err")]),
  ("bivariate.Ideal.ReduceBasis", [(0, "err"), (0, "generators"), (0, "isGroebner"), (0, "isMinimal"), (0, "isReduced")]),
  ("bivariate.Polynomial.EmbedIn", [(0, "*"), (0, "baseRing"), (0, "err"), (0, "isGroebner")]),
  ("bivariate.QuotientRing.SetVarNames", [(0, "varNames")]),
  ("extfield.Field.ComputeMultTable", [(0, "logTable")]),
  ("primefield.Field.ComputeTables", [(0, "addTable"), (0, "multTable")]),
  ("univariate.Ideal.Reduce", [(0, "err"), (1, "coefs"), (1, "err"), (1, "val")]),
  ("univariate.Polynomial.EmbedIn", [(0, "baseRing"), (0, "coefs"), (0, "err"), (0, "val")]),
  ("univariate.QuotientRing.SetVarName", [(0, "varName")])]

theorem mutator_may_writes : mayWrites Gen.effects isMutator = mutatorRows := by decide +kernel

-- non-vacuity: the classes are inhabited by the expected functions
example : (Gen.effects.any fun f => code f.key == code "primefield.Element.Plus" && isValueOp f) = true := by
  decide +kernel
example : (Gen.effects.any fun f => code f.key == code "bivariate.Polynomial.Mult" && isInplace f) = true := by
  decide +kernel

end Algobra.C16Static
