/-
  Model/Auxmath.lean — model of /repo/auxmath (basic.go, factorize.go, combination.go).
  CORE LEAN ONLY.
-/
import Algobra.Model.Word
import Algobra.Model.Errors
namespace Algobra.Auxmath
open Algobra

/-- `auxmath.BoundSqrt` -/
def boundSqrt (a : Nat) : Nat :=
  if a = 0 then 0
  else
    let b := bitLen a
    let b := if b % 2 = 0 then b / 2 else b / 2 + 1
    w64 (1 <<< b)

/-- `auxmath.boundLog2` -/
def boundLog2 (a : Nat) : Nat :=
  if a = 0 then 0
  else if popCount a = 1 then bitLen a - 1
  else bitLen a

/-- the square-and-multiply loop of `auxmath.Pow` on wrapping words -/
def powLoop (res tmp n : Nat) : Nat :=
  if h : n = 0 then res
  else
    let res' := if n % 2 = 1 then w64 (res * tmp) else res
    powLoop res' (w64 (tmp * tmp)) (n / 2)
decreasing_by omega

/-- the overflow guard of `auxmath.Pow`: `true` = refuse with an Overflow error.
    (after "fix: auxmath.Pow guard": `b > 0 && (n >= UintSize || b*n >= UintSize)`) -/
def powGuard (a n : Nat) : Bool :=
  let b := boundLog2 a
  decide (a > 0) && decide (b > 0) && (decide (n ≥ uintSize) || decide (w64 (b * n) ≥ uintSize))

/-- `auxmath.Pow` -/
def pow (a n : Nat) : Except Kind Nat :=
  if powGuard a n then .error .overflow else .ok (powLoop 1 a n)

/-- `auxmath.Gcd` -/
def gcd (a b : Nat) : Nat :=
  if h : a = 0 then b
  else gcd (b - (b / a) * a) a
termination_by a
decreasing_by
  have : b - b / a * a = b % a := by
    have := Nat.div_add_mod b a
    rw [Nat.mul_comm] at this
    omega
  rw [this]; exact Nat.mod_lt _ (by omega)

/-- the `for k := 6; p == 0 && k-1 <= maxP; k += 6` loop of FactorizePrimePower:
    first `k∓1` dividing `q`, or 0. -/
def fppScan (q maxP k : Nat) : Nat :=
  if h : k - 1 ≤ maxP then
    if q % (k - 1) = 0 then k - 1
    else if q % (k + 1) = 0 then k + 1
    else fppScan q maxP (k + 6)
  else 0
termination_by maxP + 7 - k
decreasing_by omega

/-- the `for q > 1` loop of FactorizePrimePower: divide out p, counting; `none` = not a power -/
def fppDivide (q p n : Nat) : Option Nat :=
  if h : q ≤ 1 then some n
  else if hp : p ≤ 1 then none   -- unreachable: p ≥ 2 whenever the loop is entered
  else if q % p ≠ 0 then none
  else fppDivide (q / p) p (n + 1)
termination_by q
decreasing_by exact Nat.div_lt_self (by omega) (by omega)

/-- `auxmath.FactorizePrimePower` -/
def factorizePrimePower (q : Nat) : Except Kind (Nat × Nat) :=
  if q = 0 ∨ q = 1 then .error .inputValue
  else
    let p := if q % 2 = 0 then 2 else if q % 3 = 0 then 3 else 0
    let p := if p = 0 then fppScan q (boundSqrt q) 6 else p
    if p = 0 then .ok (q, 1)
    else match fppDivide q p 0 with
      | some n => .ok (p, n)
      | none => .error .inputValue

/-- divide `n` by `p` as often as possible: `(exponent, cofactor)` -/
def divOut (n p : Nat) (e : Nat := 0) : Nat × Nat :=
  if h : p ≤ 1 ∨ n = 0 then (e, n)
  else if n % p = 0 then divOut (n / p) p (e + 1) else (e, n)
termination_by n
decreasing_by exact Nat.div_lt_self (by omega) (by omega)

/-- first candidate among `k-1, k+1, k+5, k+7, …` (while `k-1 ≤ maxF`) that divides `n`, or 0 -/
def factScan (n maxF k : Nat) : Nat :=
  if h : k - 1 ≤ maxF then
    if n % (k - 1) = 0 then k - 1
    else if n % (k + 1) = 0 then k + 1
    else factScan n maxF (k + 6)
  else 0
termination_by maxF + 7 - k
decreasing_by omega

/-- `auxmath.Factorize` as a list of `(prime, exponent)`; `fuel` bounds the recursion depth
    (each level divides `n` by at least 2, so 64 suffices for a word). -/
def factorize : Nat → Nat → List (Nat × Nat)
  | 0, _ => []
  | fuel + 1, n =>
    if n = 0 then [(0, 1)]
    else if n = 1 then []
    else
      let p := if n % 2 = 0 then 2 else if n % 3 = 0 then 3 else factScan n (boundSqrt n) 6
      if p = 0 then [(n, 1)]
      else
        let (e, n') := divOut n p
        (p, e) :: factorize fuel n'

/-! ### CombinIter -/

/-- set positions `j+1 …` of the slice to `v+1, v+2, …` -/
def refill : List Nat → Nat → List Nat
  | [], _ => []
  | _ :: t, v => (v + 1) :: refill t (v + 1)

/-- one `Next()` on a slice for parameter `n`; `none` = iterator is now at its end.
    `i` counts from the back as in the code (`j = len-1-i`). -/
def nextAux (n : Nat) (s : List Nat) (i : Nat) : Nat → Option (List Nat)
  | 0 => none
  | fuel + 1 =>
    if i ≥ s.length then none
    else
      let j := s.length - 1 - i
      let sj := s.getD j 0
      if sj + i + 1 < n then
        some (s.take j ++ [sj + 1] ++ refill (s.drop (j + 1)) (sj + 1))
      else nextAux n s (i + 1) fuel

def next (n : Nat) (s : List Nat) : Option (List Nat) := nextAux n s 0 (s.length + 1)

/-- all combinations produced by `for ci := NewCombinIter(n,k); ci.Active(); ci.Next()` -/
def allFrom (n : Nat) (s : List Nat) : Nat → List (List Nat)
  | 0 => []
  | fuel + 1 =>
    match next n s with
    | none => [s]
    | some s' => s :: allFrom n s' fuel

/-- binomial coefficient (fuel for `allFrom`) -/
def choose : Nat → Nat → Nat
  | _, 0 => 1
  | 0, _ + 1 => 0
  | n + 1, k + 1 => choose n k + choose n (k + 1)

def combinations (n k : Nat) : List (List Nat) :=
  allFrom n (List.range k) (choose n k + 1)

end Algobra.Auxmath
