/-
  Model/Tables.lean — the TABLED code paths of the two field packages that have tables.

  * primefield (tables.go, primefield.go `ComputeTables`, arithmetic.go `Add`/`Prod`):
    triangular addition / multiplication tables filled by the closures
    `func(i, j uint) uint { return (i + j) % f.char }` and `… (i * j) % f.char`;
    `Add` looks the sum up, `Prod` looks the product up AFTER its zero tests; `Pow` is
    square-and-multiply over `Mult = Prod`, `MultGenerator` searches with `Pow`.
  * extfield (tables.go `newLogTable`, extfield.go `ComputeMultTable`/`Elements`/`MultGenerator`,
    arithmetic.go `Prod`/`Inv`/`Pow`/`Trace`): `invLog := Elements()[1:]` (the powers of the
    generator by repeated untabled `Mult`), `log` = Go map from the PRINTED FORM (`String()`) of an
    element to its index, `Prod` = `invLog[(s+t) % (Card()-1)]` after the zero tests,
    `Inv` = `invLog[Card()-1-s]` after the zero and `IsOne` tests.

  The table functions are written over an arbitrary operation record `FOps α` (they use only
  `zero one gen mul card isZero isOne toStr`), and instantiated with `extOps p n g`.
  CORE LEAN ONLY; executable; all functions total (Go's index panics = the `getD` defaults, never
  taken on valid arguments: Proofs/Tables.lean).
-/
import Algobra.Model.Ext
namespace Algobra
open Algobra

/-! ## primefield -/
namespace Prime

/-- the closure `ComputeTables` passes for the addition table -/
def addClosure (p i j : Nat) : Nat := w64 (i + j) % p

/-- the closure `ComputeTables` passes for the multiplication table (no zero test here) -/
def mulClosure (p i j : Nat) : Nat := w64 (i * j) % p

/-- `f.addTable` after a successful `ComputeTables(true, _)` -/
def addTable (p : Nat) : List (List Nat) := newTable p (addClosure p)

/-- `f.multTable` after a successful `ComputeTables(_, true)` -/
def mulTable (p : Nat) : List (List Nat) := newTable p (mulClosure p)

/-- tabled branch of `Add`: `a.val = a.field.addTable.lookup(a.val, bb.val)` -/
def addWith (t : List (List Nat)) (a b : Nat) : Nat := lookup t a b

/-- tabled branch of `Prod`: zero tests first, then `multTable.lookup(bb.val, cc.val)` -/
def mulWith (t : List (List Nat)) (a b : Nat) : Nat := if a = 0 ∨ b = 0 then 0 else lookup t a b

def addT (p a b : Nat) : Nat := addWith (addTable p) a b

def mulT (p a b : Nat) : Nat := mulWith (mulTable p) a b

/-- `Pow` of a field whose multiplication table exists (`out.Mult(b)`, `b.Mult(b)` go through
    the tabled `Prod`) -/
def powT (p a n : Nat) : Nat :=
  genericPow p (element p 0) (element p 1) (· == 0) (mulT p) a n

/-- `MultGenerator` of a field whose multiplication table exists (it calls `Pow`) -/
def isGeneratorT (p : Nat) (factors : List Nat) (i : Nat) : Bool :=
  factors.all fun r => !(powT p (element p i) ((p - 1) / r) == 1)

def genSearchT (p : Nat) (factors : List Nat) (i : Nat) : Nat → Nat
  | 0 => 0
  | fuel + 1 => if isGeneratorT p factors i then element p i else genSearchT p factors (i + 1) fuel

def multGeneratorT (p : Nat) : Nat :=
  if p = 2 then 1
  else genSearchT p ((Auxmath.factorize 64 (p - 1)).map (·.1)) 2 p

end Prime

/-- the operation record of a prime field whose addition table (`addTab`) and/or multiplication
    table (`mulTab`) exist.  `Add` reads the addition table; `Prod`/`Mult`/`Times`, `Pow` and
    `MultGenerator` read the multiplication table; nothing else in primefield calls `Add` or
    `Prod` (`Sub`, `SetNeg`, `Inv`, the constructors and the printer/parser compute directly). -/
def primeOpsT (p : Nat) (addTab mulTab : Bool) : FOps Nat :=
  { primeOps p with
    add := if addTab then Prime.addT p else Prime.add p
    mul := if mulTab then Prime.mulT p else Prime.mul p
    pow := if mulTab then Prime.powT p else Prime.pow p
    gen := if mulTab then Prime.multGeneratorT p else Prime.multGenerator p }

/-! ## the logarithm table of extfield, over an arbitrary record -/
namespace LogT
variable {α : Type}

/-- the loop of `Elements()`: `e := One(); for i := 1; i < Card(); i++ { out[i] = e.Copy(); e.Mult(gen) }` -/
def powersLoop (F : FOps α) : Nat → α → List α
  | 0, _ => []
  | k + 1, e => e :: powersLoop F k (F.mul e F.gen)

/-- `Elements()`: zero, then `Card() - 1` successive powers of `MultGenerator()` -/
def elements (F : FOps α) : List α := F.zero :: powersLoop F (F.card - 1) F.one

/-- a Go `map[string]uint` as an association list; `m[k] = v` overwrites or appends -/
def mapSet (m : List (String × Nat)) (k : String) (v : Nat) : List (String × Nat) :=
  if m.any (·.1 == k) then m.map fun (k', x) => if k' == k then (k', v) else (k', x)
  else m ++ [(k, v)]

/-- `m[k]` (zero value for an absent key) -/
def mapGet (m : List (String × Nat)) (k : String) : Nat := ((m.find? (·.1 == k)).map (·.2)).getD 0

/-- `table{invLog, log}` -/
structure Table (α : Type) where
  invLog : List α
  log : List (String × Nat)

/-- `newLogTable` (after the memory check): `invLog := f.Elements()[1:]`,
    `for i, e := range invLog { log[e.String()] = uint(i) }` -/
def newTable (F : FOps α) : Table α :=
  let invLog := (elements F).drop 1
  { invLog := invLog
    log := (invLog.zipIdx).foldl (fun m (e, i) => mapSet m (F.toStr e) i) [] }

/-- `t.lookup(a)` = `t.log[a.String()]` -/
def lookup (F : FOps α) (t : Table α) (a : α) : Nat := mapGet t.log (F.toStr a)

/-- `t.lookupReverse(i)` = a copy of `t.invLog[i]` (Go panics when `i` is out of range; the
    default is never taken for valid operands) -/
def lookupReverse (F : FOps α) (t : Table α) (i : Nat) : α := t.invLog.getD i F.zero

/-- tabled branch of `Prod`: zero tests, `s`, `t`, `invLog[(s + t) % (Card() - 1)]` -/
def mulWith (F : FOps α) (t : Table α) (b c : α) : α :=
  if F.isZero b || F.isZero c then F.zero
  else lookupReverse F t (w64 (lookup F t b + lookup F t c) % wsub F.card 1)

/-- tabled branch of `Inv`: zero → error, one → copy, `invLog[Card() - 1 - s]` -/
def invWith (F : FOps α) (t : Table α) (a : α) : Option α :=
  if F.isZero a then none
  else if F.isOne a then some a
  else some (lookupReverse F t (wsub (wsub F.card 1) (lookup F t a)))

end LogT

/-! ## extfield -/
namespace Ext

/-- `f.logTable` after a successful `ComputeMultTable` (built with the untabled `Mult`: the
    request is honoured only while `f.logTable == nil`) -/
def logTable (p n : Nat) (g : List Nat) : LogT.Table (UPoly Nat) := LogT.newTable (extOps p n g)

/-- `Prod` with a table (`a.val.SetZero()` is the model's `[0]` = `extOps.zero`) -/
def mulT (p n : Nat) (g : List Nat) (b c : UPoly Nat) : UPoly Nat :=
  LogT.mulWith (extOps p n g) (logTable p n g) b c

/-- `Inv` with a table -/
def invT (p n : Nat) (g : List Nat) (a : UPoly Nat) : Option (UPoly Nat) :=
  LogT.invWith (extOps p n g) (logTable p n g) a

/-- `Pow` with a table (`Mult` = tabled `Prod`) -/
def powT (p n : Nat) (g : List Nat) (a : UPoly Nat) (k : Nat) : UPoly Nat :=
  genericPow (card p n) [0] [1 % p] (UPoly.isZero (primeOps p)) (mulT p n g) a k

/-- `Trace` with a table (it calls `Pow`) -/
def traceLoopT (p n : Nat) (g : List Nat) (a out : UPoly Nat) : Nat → UPoly Nat
  | 0 => out
  | k + 1 => traceLoopT p n g a (UPoly.add (primeOps p) (powT p n g out p) a) k

def traceT (p n : Nat) (g : List Nat) (a : UPoly Nat) : UPoly Nat := traceLoopT p n g a a (n - 1)

end Ext

/-- the operation record of an extension field whose logarithm table exists (`tab`).
    `Prod`/`Mult`/`Times` and `Inv` read the table; `Pow` and `Trace` call `Mult`; everything else
    (`Add`, `Sub`, `SetNeg`, constructors, `MultGenerator`, printer/parser) is untouched. -/
def extOpsT (p n : Nat) (g : List Nat) (tab : Bool) : FOps (UPoly Nat) :=
  if tab then
    { extOps p n g with
      mul := Ext.mulT p n g
      inv := Ext.invT p n g
      pow := Ext.powT p n g
      trace := Ext.traceT p n g }
  else extOps p n g

end Algobra
