/-
  Model/Word.lean — machine words (Go `uint` on a 64-bit platform) as `Nat` with explicit truncation.
  CORE LEAN ONLY (no Mathlib): this file is linked into the executable driver.
-/
namespace Algobra

/-- `bits.UintSize` on the modelled platform. -/
def uintSize : Nat := 64

/-- truncation of a natural number to a Go `uint` -/
@[inline] def w64 (x : Nat) : Nat := x % 2 ^ 64

/-- Go `a - b` on `uint` (wraps around) -/
@[inline] def wsub (a b : Nat) : Nat := (a + 2 ^ 64 - b % 2 ^ 64) % 2 ^ 64

/-- `bits.Len(a)`: number of bits needed to represent `a` (0 for 0). -/
def bitLen (a : Nat) : Nat := if a = 0 then 0 else Nat.log2 a + 1

/-- `bits.OnesCount(a)` -/
def popCount (a : Nat) : Nat :=
  if h : a = 0 then 0 else a % 2 + popCount (a / 2)
decreasing_by omega

/-- Go `int` (64-bit two's complement) from an unbounded integer. -/
def wrapInt (x : Int) : Int :=
  let m := x % (2 ^ 64 : Int)
  if m < 2 ^ 63 then m else m - 2 ^ 64

/-- Go's truncated `%` on `int` (sign follows the dividend). -/
def goMod (a b : Int) : Int := Int.tmod a b

/-- Go's conversion `uint(x)` for an `int` x. -/
def intToWord (x : Int) : Nat := (x % (2 ^ 64 : Int)).toNat

/-- Go's conversion `int(x)` for a `uint` x. -/
def wordToInt (x : Nat) : Int := wrapInt (Int.ofNat x)

end Algobra
