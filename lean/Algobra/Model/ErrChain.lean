/-
  Model/ErrChain.lean — the `errors` package itself (/repo/errors/errors.go): Go error values as
  chains of `*errors.Error` wrappers, `errors.New`, `errors.Wrap`, `errors.Is`, and the abstraction
  `GoErr.status` of a chain to the error status `Err` (Model/Errors.lean) that every other model
  file works with. CORE LEAN ONLY.

  The three functions below were written against the normalised source texts `Gen.errorsIsSrc`,
  `Gen.errorsWrapSrc`, `Gen.errorsNewSrc` (Gen/ErrSites.lean); Props/ErrTies.lean pins those texts.
-/
import Algobra.Model.Errors
namespace Algobra

/-- a non-nil Go `error` value.
    `foreign msg` : any error that is not an `*errors.Error` (what `fmt.Errorf` returns, …);
    `wrap op kind inner` : `&errors.Error{Op: op, Kind: kind, Err: inner}` with
      `kind = none` for `errors.Inherit` and `inner = none` for a nil wrapped error
      (`errors.Wrap(op, errors.Inherit, nil)` really occurs in the library). -/
inductive GoErr where
  | foreign (msg : String)
  | wrap (op : String) (kind : Option Kind) (inner : Option GoErr)
  deriving Repr, Inhabited

namespace GoErr

/-- `errors.New(op, kind, message, formatArgs...)`:
    `&Error{Op: op, Kind: kind, Err: fmt.Errorf(message, formatArgs...)}` -/
def new (op : String) (k : Kind) (msg : String) : GoErr := .wrap op (some k) (some (.foreign msg))

/-- `errors.Wrap(op, kind, err)`: `&Error{Op: op, Kind: kind, Err: err}`
    (`kind = none` is `errors.Inherit`, `inner = none` is a nil `err`) -/
def wrapE (op : String) (k : Option Kind) (inner : Option GoErr) : GoErr := .wrap op k inner

/-- `errors.Is(kind, err)` for a non-nil `err`, clause by clause:
    `e, ok := err.(*Error)`; `case !ok: return false`; `case e.Kind != Inherit: return e.Kind == kind`;
    `return Is(kind, e.Err)` — where a nil `e.Err` fails the type assertion of the recursive call. -/
def is (k : Kind) : GoErr → Bool
  | .foreign _ => false                       -- !ok
  | .wrap _ (some k') _ => k' == k            -- e.Kind != Inherit
  | .wrap _ none none => false                -- Is(kind, nil): the type assertion fails
  | .wrap _ none (some e) => is k e           -- Is(kind, e.Err)

/-- `errors.Is(kind, err)` for a possibly nil `err` (nil fails the type assertion) -/
def isO (k : Kind) : Option GoErr → Bool
  | none => false
  | some e => e.is k

/-- the status the model keeps of a non-nil error chain: the kind of the first non-`Inherit`
    wrapper; `kindless` when the chain ends (in a foreign error or in nil) without meeting one -/
def status : GoErr → Err
  | .foreign _ => .kindless
  | .wrap _ (some k) _ => .kind k
  | .wrap _ none none => .kindless
  | .wrap _ none (some e) => status e

/-- status of a Go `error` value: nil ↦ `Err.none` -/
def statusO : Option GoErr → Err
  | none => .none
  | some e => e.status

/-- wrap `n` times with `errors.Inherit` (operations `ops i`) -/
def wrapInheritN (ops : Nat → String) : Nat → GoErr → GoErr
  | 0, e => e
  | n + 1, e => .wrap (ops n) none (some (wrapInheritN ops n e))

/-- the same chain with every operation name and every message replaced -/
def relabel (fop fmsg : String → String) : GoErr → GoErr
  | .foreign m => .foreign (fmsg m)
  | .wrap op k none => .wrap (fop op) k none
  | .wrap op k (some e) => .wrap (fop op) k (some (relabel fop fmsg e))

/-- number of wrappers of a chain -/
def depth : GoErr → Nat
  | .foreign _ => 0
  | .wrap _ _ none => 1
  | .wrap _ _ (some e) => depth e + 1

end GoErr

/-! ### lookup in the regenerated tables `Gen.errDirect` / `Gen.errClosed` -/

/-- the name of the Go constant of a kind (`errors.InputValue` ↦ "InputValue"): `Kind.toString` gives
    exactly the constant names (`kindNamesInOrder`, tied to `Gen.kindNames` in Props/GenTies.lean and
    again in Props/ErrTies.lean) -/
abbrev Kind.name (k : Kind) : String := k.toString

/-- the kinds a table lists for the Go function `key` (`[]` for a function that has no entry,
    i.e. constructs no error) -/
def kindsOf (tbl : List (String × List String)) (key : String) : List String :=
  (tbl.lookup key).getD []

end Algobra
