/-
  Model/Parse.lean — total, structurally recursive tokenisers for the concrete patterns of the
  library's string constructors (binfield `ElementFromString`, univariate and bivariate
  `polynomialStringToMap`, the `RegexElement(true)` coefficient pattern of the three field kinds).

  Each function below computes, for the pattern named in its comment, exactly what Go's
  leftmost-first `regexp` engine computes — the prioritised match at a given position and the
  `FindAllStringSubmatch(s, -1)` iteration (including: an empty match abutting the previous match
  is dropped, and the search position then moves one character on) — PROVIDED the variable names
  are *simple* (`simpleName`: an ASCII letter followed by ASCII letters and digits), and, for the
  bivariate pattern over a field with its own variable, that variable is not a prefix of a
  polynomial variable or vice versa, ignoring case (`unconf`).  Under these conditions the patterns
  never backtrack across their pieces (argument per pattern in the comments), so greedy
  deterministic scanning is leftmost-first matching.  For all other names the callers
  (`Bin.parse`, `UPoly.stringToMap`, `BPoly.stringToMap`) keep using the general backtracking
  engine `Algobra.Regex` (`parseRx`, `stringToMapRx`).

  The matches are returned in the same shape as `Regex.findAll` returns them (array of the full
  match and the capture groups), so the post-processing of the Go code is shared between the two
  paths, and the two paths can be compared match by match.
  `none` = the matches do not cover the whole input (the `matchLen != len(s)` Parsing error).
  CORE LEAN ONLY.
-/
import Algobra.Model.Regex
namespace Algobra.Parse
open Algobra.Regex (isWs lower)

abbrev Cs := List Char

def isSign (c : Char) : Bool := c == '+' || c == '-'

/-- `\s*` -/
def dropWs (s : Cs) : Cs := s.dropWhile isWs

/-- `[0-9]*`, greedy: the digits … -/
def digits (s : Cs) : Cs := s.takeWhile Char.isDigit
/-- … and what follows them -/
def dropDigits (s : Cs) : Cs := s.dropWhile Char.isDigit

/-- a literal, case-sensitive -/
def strip : Cs → Cs → Option Cs
  | [], s => some s
  | _ :: _, [] => none
  | a :: p, b :: s => if a == b then strip p s else none

/-- `(?i:literal)` with the engine's ASCII case folding -/
def stripCi : Cs → Cs → Option Cs
  | [], s => some s
  | _ :: _, [] => none
  | a :: p, b :: s => if lower a == lower b then stripCi p s else none

/-- `\^?` -/
def dropCaret : Cs → Cs
  | c :: t => if c == '^' then t else c :: t
  | [] => []

/-- `\*?` -/
def dropStar : Cs → Cs
  | c :: t => if c == '*' then t else c :: t
  | [] => []

/-- `\s*\*?\s*` -/
def skipMult (s : Cs) : Cs := dropWs (dropStar (dropWs s))

/-- the text between a position `s` and a later position `r` (a suffix of `s`) -/
def consumed (s r : Cs) : String := String.ofList (s.take (s.length - r.length))

/-- names for which the tokenisers are used: ASCII letter, then ASCII letters/digits -/
def simpleName (s : String) : Bool :=
  match s.toList with
  | c :: t => c.isAlpha && t.all Char.isAlphanum
  | [] => false

/-- neither name is a prefix of the other, ignoring (ASCII) case -/
def unconf (a b : String) : Bool :=
  !(a.toList.map lower).isPrefixOf (b.toList.map lower) &&
  !(b.toList.map lower).isPrefixOf (a.toList.map lower)

/-! ### the coefficient pattern `RegexElement(true)`

  prime fields: `[0-9]*`.
  binary / extension fields with variable `W`:
    `(?:\(\s*T M\s*\)|T)`,  `T = (?:[0-9]*(?:W(?:\^?[0-9]+)?)|[0-9]+)`,  `M = (?:\s*(?:\+|-)\s*T)*`.
  `W` begins with a letter, so in `T` giving back digits never lets `W` match: the first
  alternative matches iff `W` follows the maximal digit run.  After any non-greedy choice inside
  `T M` the next character is a digit, `^`, the first letter of `W`, or blanks followed by a sign;
  neither `\s*\)` nor another iteration of `M` can follow.  Hence the parenthesised alternative
  matches iff the greedy scan reaches `\s*\)`, and then only in that way. -/

/-- `(?:\^?[0-9]+)?` -/
def scanExp (r : Cs) : Cs :=
  match dropCaret r with
  | c :: t => if c.isDigit then dropDigits (c :: t) else r
  | [] => r

/-- `T` at `s`: the position after the prioritised match -/
def scanTerm (w s : Cs) : Option Cs :=
  match strip w (dropDigits s) with
  | some r1 => some (scanExp r1)
  | none => if (digits s).isEmpty then none else some (dropDigits s)

/-- `M` at `s` (fuel: every iteration consumes at least the sign) -/
def scanMore (w : Cs) : Nat → Cs → Cs
  | 0, s => s
  | f + 1, s =>
    match dropWs s with
    | c :: t =>
      if isSign c then
        match scanTerm w (dropWs t) with
        | some r => scanMore w f r
        | none => s
      else s
    | [] => s

/-- the coefficient pattern of a field with variable `w` -/
def scanCoefNamed (w s : Cs) : Option Cs :=
  match s with
  | c :: t =>
    if c == '(' then
      match scanTerm w (dropWs t) with
      | some r =>
        match dropWs (scanMore w r.length r) with
        | c' :: r' => if c' == ')' then some r' else none
        | [] => none
      | none => none
    else scanTerm w s
  | [] => scanTerm w s

/-- `RegexElement(true)` at `s`; `ov` = the field's own variable (`none`: prime field) -/
def scanCoef (ov : Option Cs) (s : Cs) : Option Cs :=
  match ov with
  | none => some (dropDigits s)
  | some w => scanCoefNamed w s

/-! ### binfield.ElementFromString

  `\s*(?:^|\+|-)\s*((?:0|1)|W(?:\^?([0-9]+))?)\s*`, unanchored, `FindAllStringSubmatch`.
  Group 1 needs at least one character, so there are no empty matches; a match that does not begin
  where the previous one ended leaves a character uncovered (Parsing error).  At a sign the branch
  `^` (possible at offset 0 only) fails at group 1, so the sign is consumed; without a sign only
  offset 0 can match (`\s*` gives everything back, `^`, `\s*` again). -/

/-- `W(?:\^?([0-9]+))?` at `r3`: groups 1, 2 and the position after the match -/
def binVar (w r3 : Cs) : Option (String × String × Cs) :=
  match strip w r3 with
  | none => none
  | some r4 =>
    match dropCaret r4 with
    | c :: t =>
      if c.isDigit then
        some (consumed r3 (dropDigits (c :: t)), String.ofList (digits (c :: t)), dropDigits (c :: t))
      else some (consumed r3 r4, "", r4)
    | [] => some (consumed r3 r4, "", r4)

/-- group 1 (`(?:0|1)` first) -/
def binBody (w r3 : Cs) : Option (String × String × Cs) :=
  match r3 with
  | c :: t =>
    if c == '0' then some ("0", "", t)
    else if c == '1' then some ("1", "", t)
    else binVar w r3
  | [] => binVar w r3

/-- `\s*(?:^|\+|-)`: the position after the sign; `first` = `s` is the whole input -/
def binSign (first : Bool) (s : Cs) : Option Cs :=
  match dropWs s with
  | c :: t => if isSign c then some t else if first then some (c :: t) else none
  | [] => if first then some [] else none

/-- the prioritised match at `s` -/
def tokBin (w : Cs) (first : Bool) (s : Cs) : Option (Array String × Cs) :=
  match binSign first s with
  | none => none
  | some r2 =>
    match binBody w (dropWs r2) with
    | none => none
    | some (g1, g2, r5) => some (#[consumed s (dropWs r5), g1, g2], dropWs r5)

def loopBin (w : Cs) : Nat → Bool → Cs → Option (List (Array String))
  | 0, _, s => if s.isEmpty then some [] else none
  | f + 1, first, s =>
    if s.isEmpty then some []
    else
      match tokBin w first s with
      | none => none
      | some (g, r) => if r.length < s.length then (loopBin w f false r).map (g :: ·) else none

/-- all matches, or `none` when they do not cover the input -/
def matchesBin (w : String) (s : String) : Option (List (Array String)) :=
  loopBin w.toList s.toList.length true s.toList

/-! ### univariate `polynomialStringToMap`

  `\s*(?P<sign>\+|-)?\s*(?P<coef>C)?\s*\*?\s*(?:(?P<var>(?i:V))\^?(?P<deg>[0-9]*))?\s*`.
  Every piece is optional, so the pattern matches at every position and the first (greedy) choice
  of every piece is final: nothing after it can fail.  An empty match is accepted only as the very
  first match (then a character is skipped, or the input is empty); an empty match after a
  previous match is dropped and a character is skipped, unless the input is exhausted. -/

/-- `(?P<sign>\+|-)?` -/
def takeSign (s : Cs) : String × Cs :=
  match s with
  | c :: t => if isSign c then (String.singleton c, t) else ("", s)
  | [] => ("", [])

/-- `(?:(?P<var>(?i:V))\^?(?P<deg>[0-9]*))?\s*` at `r5`: groups var, deg and the position after it -/
def varDeg (v r5 : Cs) : String × String × Cs :=
  match stripCi v r5 with
  | some r6 =>
    (consumed r5 r6, String.ofList (digits (dropCaret r6)), dropWs (dropDigits (dropCaret r6)))
  | none => ("", "", dropWs r5)

def tokU (ov : Option Cs) (v : Cs) (s : Cs) : Array String × Cs :=
  let sg := takeSign (dropWs s)
  let r3 := dropWs sg.2
  let r4 := (scanCoef ov r3).getD r3
  let vd := varDeg v (skipMult r4)
  (#[consumed s vd.2.2, sg.1, consumed r3 r4, vd.1, vd.2.1], vd.2.2)

def loopU (ov : Option Cs) (v : Cs) : Nat → Cs → Option (List (Array String))
  | 0, s => if s.isEmpty then some [] else none
  | f + 1, s =>
    if s.isEmpty then some []
    else if (tokU ov v s).2.length < s.length then
      (loopU ov v f (tokU ov v s).2).map ((tokU ov v s).1 :: ·)
    else none

def matchesU (ov : Option String) (v : String) (s : String) : Option (List (Array String)) :=
  if s.toList.isEmpty then some [#["", "", "", "", ""]]
  else loopU (ov.map String.toList) v.toList s.toList.length s.toList

/-! ### bivariate `polynomialStringToMap`

  `(?P<sign>^|\+|-)\s*(?:A1|A2)`,
  `A1 = (?P<coef>C)?\s*\*?\s*(?P<var1>(?i:X|Y))\^?(?P<deg1>[0-9]*)(?:\s*\*?\s*(?P<var2>(?i:X|Y))?\^?(?P<deg2>[0-9]*))?\s*`,
  `A2 = (?P<coefOnly>C)\s*`.
  In `A1` everything after `var1` is optional (greedy choices are final).  `var1` is required:
  if it does not follow the greedy coefficient and `\s*\*?\s*`, then it follows no other choice
  either — a shorter coefficient ends before a digit, `^`, or the field variable `W`, and a
  polynomial variable matching where `W` matches would be a prefix of `W` or conversely, which
  `unconf` excludes.  The alternation `X|Y` is followed by optional pieces only: `X` wins whenever
  it matches.  At offset 0 the branch `^` is tried first, then the sign character; elsewhere a sign
  is required.  The only possible empty match is at offset 0 (prime fields: `A2` with no digits). -/

def scanVar (x y s : Cs) : Option Cs :=
  match stripCi x s with
  | some r => some r
  | none => stripCi y s

/-- groups 2…7 and the position after `A1|A2` at `q` -/
def bodyB (ov : Option Cs) (x y q : Cs) : Option (Array String × Cs) :=
  let r0 := (scanCoef ov q).getD q
  let r1 := skipMult r0
  match scanVar x y r1 with
  | some r2 =>
    let r3 := dropCaret r2
    let r4 := dropDigits r3
    let r5 := skipMult r4
    let r6 := (scanVar x y r5).getD r5
    let r7 := dropCaret r6
    let r9 := dropWs (dropDigits r7)
    some (#[consumed q r0, consumed r1 r2, String.ofList (digits r3), consumed r5 r6,
            String.ofList (digits r7), ""], r9)
  | none =>
    match scanCoef ov q with
    | some r => some (#["", "", "", "", "", consumed q r], dropWs r)
    | none => none

def tokB (ov : Option Cs) (x y : Cs) (first : Bool) (s : Cs) : Option (Array String × Cs) :=
  let withSign : Option (Array String × Cs) :=
    match s with
    | c :: t =>
      if isSign c then
        match bodyB ov x y (dropWs t) with
        | some (g, r) => some (#[consumed s r, String.singleton c] ++ g, r)
        | none => none
      else none
    | [] => none
  if first then
    match bodyB ov x y (dropWs s) with
    | some (g, r) => some (#[consumed s r, ""] ++ g, r)
    | none => withSign
  else withSign

def loopB (ov : Option Cs) (x y : Cs) : Nat → Cs → Option (List (Array String))
  | 0, s => if s.isEmpty then some [] else none
  | f + 1, s =>
    if s.isEmpty then some []
    else
      match tokB ov x y false s with
      | none => none
      | some (g, r) => if r.length < s.length then (loopB ov x y f r).map (g :: ·) else none

def matchesB (ov : Option String) (x y : String) (s : String) : Option (List (Array String)) :=
  let cs := s.toList
  match tokB (ov.map String.toList) x.toList y.toList true cs with
  | none => if cs.isEmpty then some [] else none
  | some (g, r) =>
    if r.length < cs.length then (loopB (ov.map String.toList) x.toList y.toList cs.length r).map (g :: ·)
    else if cs.isEmpty then some [g] else none

end Algobra.Parse
