/-
  Model/Hist.lean — object level: a store of element / polynomial / ideal registers over one
  coefficient field record and `step : St → Op → St × String`, one `Op` per public method.
  Each register holds (home, value, error status); `step` is defined from the value-level
  functions plus the code's check-errors-first / copy / in-place discipline. The reply string
  says which object was returned and what it looks like. CORE LEAN ONLY.
-/
import Algobra.Model.BPoly
import Algobra.Model.Conway
namespace Algobra
open Algobra

/-- element register: `home` = index of the field object it was created from;
    `foreign` = an element of another implementation type (fails the type assertion) -/
structure EReg (α : Type) where
  home : Nat
  val : α
  err : Err := .none
  foreign : Bool := false

structure UReg (α : Type) where
  home : Nat           -- ring index: 0 = base ring, 1 = quotient ring, 2 = a second base ring
  val : UPoly α
  err : Err := .none

structure BReg (α : Type) where
  home : Nat
  val : BPoly α
  err : Err := .none

/-- environment of a history: fields (all of one kind), the univariate and bivariate rings -/
structure Env (α : Type) where
  /-- field objects by index (index 0 = the coefficient field of the rings) -/
  fld : Nat → FOps α
  /-- univariate rings: 0 = base ring, 1 = quotient ring, 2 = a second base ring -/
  uring : Nat → UPoly.Ring α
  /-- bivariate rings, same indexing -/
  bring : Nat → BPoly.Ring α

structure St (α : Type) where
  es : List (Nat × EReg α) := []
  us : List (Nat × UReg α) := []
  bs : List (Nat × BReg α) := []
  ids : List (Nat × BPoly.Ideal α) := []
  /-- field objects (by index) whose addition table / multiplication (or logarithm) table exists;
      only the *presence* of a table is state: it decides whether a later request recomputes -/
  addTabs : List Nat := []
  mulTabs : List Nat := []

namespace St
variable {α : Type}
def setL {β : Type} (l : List (Nat × β)) (k : Nat) (v : β) : List (Nat × β) :=
  if l.any (·.1 == k) then l.map fun (k', x) => if k' == k then (k', v) else (k', x)
  else (l ++ [(k, v)])
def getL {β : Type} (l : List (Nat × β)) (k : Nat) : Option β := (l.find? (·.1 == k)).map (·.2)
end St

inductive Op where
  -- elements
  | eCtor (dst : Nat) (fld : Nat) (how : String) (arg : String)    -- u s bits sl isl str zero one gen foreign enc
  | eBin (dst : Nat) (op : String) (a b : Nat)                      -- plus minus times
  | eUn (dst : Nat) (op : String) (a : Nat)                         -- neg inv copy trace
  | ePow (dst : Nat) (a : Nat) (n : Nat)
  | eIn (op : String) (a b : Nat)                                   -- add sub mult
  | eProd (a b c : Nat)
  | eSetNeg (a : Nat)
  | eSetU (a : Nat) (n : Nat)
  | eEq (a b : Nat)
  | eShow (a : Nat)
  -- univariate
  | uCtor (dst : Nat) (ring : Nat) (how : String) (arg : String)   -- coefs nats ints str zero one
  | uBin (dst : Nat) (op : String) (a b : Nat)                      -- plus minus times
  | uUn (dst : Nat) (op : String) (a : Nat)                         -- neg normalize copy lt
  | uScale (dst : Nat) (a : Nat) (e : Nat)
  | uPow (dst : Nat) (a : Nat) (n : Nat)
  | uEval (dst : Nat) (a : Nat) (e : Nat)
  | uCoef (dst : Nat) (a : Nat) (d : Nat)
  | uLc (dst : Nat) (a : Nat)
  | uIn (op : String) (a b : Nat)                                   -- add sub mult
  | uSetNeg (a : Nat)
  | uSetScale (a e : Nat)
  | uSetCoef (op : String) (a d e : Nat)                            -- set inc dec
  | uSetZero (a : Nat)
  | uEmbed (a ring : Nat) (reduce : Bool)
  | uQuoRem (dsts : List Nat) (a : Nat) (gs : List Nat)             -- dsts = quotient registers ++ [remainder]
  | uGcd (dst : Nat) (gs : List Nat)
  | uInterp (dst : Nat) (ring : Nat) (pts vals : List Nat)
  | uEq (a b : Nat)
  | uObs (a : Nat)
  -- bivariate
  | bCtor (dst : Nat) (ring : Nat) (how : String) (arg : String)   -- map nats ints str zero
  | bBin (dst : Nat) (op : String) (a b : Nat)
  | bUn (dst : Nat) (op : String) (a : Nat)                         -- neg normalize copy lt
  | bScale (dst : Nat) (a e : Nat)
  | bPow (dst : Nat) (a n : Nat)
  | bEval (dst : Nat) (a x y : Nat)
  | bCoef (dst : Nat) (a : Nat) (d : Deg)
  | bLc (dst : Nat) (a : Nat)
  | bIn (op : String) (a b : Nat)
  | bSetScale (a e : Nat)
  | bSetCoef (op : String) (a : Nat) (d : Deg) (e : Nat)
  | bQuoRem (dsts : List Nat) (a : Nat) (gs : List Nat)
  | bRem (dst : Nat) (a : Nat) (gs : List Nat)
  | bInterp (dst : Nat) (ring : Nat) (xs ys vals : List Nat)
  | bEq (a b : Nat)
  | bObs (a : Nat)
  -- ideals
  | iNew (dst : Nat) (ring : Nat) (gs : List Nat)
  | iCopy (dst : Nat) (a : Nat)
  | iGroebner (dst : Nat) (a : Nat)
  | iPred (which : String) (a : Nat)                                -- groebner minimal reduced
  | iXform (which : String) (a : Nat)                               -- minimize reduce
  | iGens (dsts : List Nat) (a : Nat)
  | iObs (a : Nat)
  -- tables: observable only through the returned error
  | tables (fld : Nat) (add mult : Bool) (maxMem : Option Nat)
  | bad (line : String)
  deriving Repr

section step
variable {α : Type} (env : Env α)

def F0 : FOps α := env.fld 0

def fld (i : Nat) : FOps α := env.fld i

/-! canonical observation strings -/

def showE (r : EReg α) : String :=
  if r.foreign then "foreign" ++ (if r.err.isErr then "!" ++ toString r.err else "")
  else if r.err.isErr then "!" ++ toString r.err
  else toString r.home ++ "#" ++ (fld env r.home).enc r.val

def encU (f : UPoly α) : String := "/".intercalate (f.map (F0 env).enc)

def showU (r : UReg α) : String :=
  if r.err.isErr then "!" ++ toString r.err else toString r.home ++ "#" ++ encU env r.val

def encB (o : Order) (f : BPoly α) : String :=
  "/".intercalate ((BPoly.sortedTerms (F0 env) o f).map fun (d, c) =>
    toString d.1 ++ ":" ++ toString d.2 ++ ":" ++ (F0 env).enc c)

def bord (i : Nat) : Order := (env.bring i).ord

def showB (r : BReg α) : String :=
  if r.err.isErr then "!" ++ toString r.err else toString r.home ++ "#" ++ encB env (bord env r.home) r.val

/-- set-like canonical form of a generator list: sorted encodings -/
def showGens (o : Order) (gs : List (BPoly α)) : String :=
  "|".intercalate ((gs.map (encB env o)).toArray.qsort (· < ·)).toList

def snapshot (s : St α) : String :=
  let es := s.es.map fun (k, r) => "e" ++ toString k ++ "=" ++ showE env r
  let us := s.us.map fun (k, r) => "p" ++ toString k ++ "=" ++ showU env r
  let bs := s.bs.map fun (k, r) => "q" ++ toString k ++ "=" ++ showB env r
  let is := s.ids.map fun (k, r) => "i" ++ toString k ++ "=" ++ showGens env (bord env 0) r.gens
  " ".intercalate (es ++ us ++ bs ++ is)

def hexVal (c : Char) : Nat :=
  if c.isDigit then c.toNat - '0'.toNat else if 'a' ≤ c && c ≤ 'f' then c.toNat - 'a'.toNat + 10 else 0

/-- strings travel hex-encoded on the wire -/
def unhex (s : String) : String :=
  if s == "EMPTY" then "" else
  let rec go : List Char → List Char
    | a :: b :: t => Char.ofNat (hexVal a * 16 + hexVal b) :: go t
    | _ => []
  String.ofList (go s.toList)

def parseNatList (s : String) : List Nat :=
  if s == "" || s == "-" then [] else (s.splitOn ",").map String.toNat!

def parseIntList (s : String) : List Int :=
  if s == "" || s == "-" then [] else (s.splitOn ",").map fun t =>
    if t.startsWith "-" then -(Int.ofNat ((t.drop 1).toString.toNat!)) else Int.ofNat t.toNat!

def decU (s : String) : Option (List α) :=
  if s == "" || s == "-" then some [] else (s.splitOn "/").mapM (F0 env).dec

def decB (s : String) : Option (List (Deg × α)) :=
  if s == "" || s == "-" then some [] else (s.splitOn "/").mapM fun t =>
    match t.splitOn ":" with
    | [x, y, c] => ((F0 env).dec c).map fun v => ((x.toNat!, y.toNat!), v)
    | _ => none

def parseInt (t : String) : Int :=
  if t.startsWith "-" then -(Int.ofNat ((t.drop 1).toString.toNat!)) else Int.ofNat t.toNat!

/-! ### elements -/

def eGet (s : St α) (k : Nat) : EReg α :=
  (St.getL s.es k).getD { home := 0, val := (F0 env).zero, err := .kind .internal }

/-- outcome of the operand checks of a binary element operation `a.Op(b)`:
    `inl r` = an object other than the (possibly updated) receiver is returned / receiver is returned
    with an error; `inr ()` = proceed -/
inductive Chk (β : Type) where
  | recv (r : β)       -- the receiver (updated as given) is returned, computation stops
  | other (r : β)      -- another object is returned, receiver unchanged
  | go

def eCheck (a b : EReg α) : Chk (EReg α) :=
  if b.foreign then .recv { a with err := .kind .inputIncompatible }
  else if a.err.isErr then .recv { a with err := a.err.wrapInherit }
  else if b.err.isErr then .other { b with err := b.err.wrapInherit }
  else if a.home ≠ b.home then
    .other { home := a.home, val := (fld env a.home).zero, err := .kind .arithmeticIncompat }
  else .go

def eBinFn (F : FOps α) (op : String) : α → α → α :=
  if op == "plus" || op == "add" then F.add
  else if op == "minus" || op == "sub" then F.sub
  else F.mul

/-- in-place `a.Add(b)`, `a.Sub(b)`: new receiver state, returned object, returned-is-receiver -/
def eInPlace (op : String) (a b : EReg α) : EReg α × EReg α × Bool :=
  match eCheck env a b with
  | .recv r => (r, r, true)
  | .other r => (a, r, false)
  | .go => let r := { a with val := eBinFn (fld env a.home) op a.val b.val }; (r, r, true)

/-- `a.Prod(b, c)` (after "fix: foreign element type in Prod"). `bIsA` / `cIsA` say that operand b / c
    is the very same object as the receiver (`a.Mult(b)` is `a.Prod(a, b)`): the erroneous operand that
    `hasErr` returns is then the receiver itself. -/
def eProdFn (a b c : EReg α) (bIsA cIsA : Bool := false) : EReg α × EReg α × Bool :=
  if b.foreign || c.foreign then let r := { a with err := .kind .inputIncompatible }; (r, r, true)
  else if b.err.isErr then
    let r := { b with err := b.err.wrapInherit }
    if bIsA then (r, r, true) else (a, r, false)
  else if c.err.isErr then
    let r := { c with err := c.err.wrapInherit }
    if cIsA then (r, r, true) else (a, r, false)
  else if b.home ≠ c.home then
    (a, { home := b.home, val := (fld env b.home).zero, err := .kind .arithmeticIncompat }, false)
  else let r := { a with home := b.home, val := (fld env b.home).mul b.val c.val }; (r, r, true)

def ret (isRecv : Bool) (s : String) : String := (if isRecv then "recv " else "other ") ++ s

def stepE (s : St α) : Op → Option (St α × String)
  | .eCtor dst f how arg =>
    let F := fld env f
    let mk (v : α) : Option (St α × String) :=
      let r : EReg α := { home := f, val := v }
      some ({ s with es := St.setL s.es dst r }, "ok " ++ showE env r)
    if how == "u" then mk (F.ofNat arg.toNat!)
    else if how == "s" then mk (F.ofInt (parseInt arg))
    else if how == "zero" then mk F.zero
    else if how == "one" then mk F.one
    else if how == "gen" then mk F.gen
    else if how == "enc" then (F.dec arg).bind mk
    else if how == "foreign" then
      let r : EReg α := { home := f, val := F.zero, foreign := true }
      some ({ s with es := St.setL s.es dst r }, "ok foreign")
    else if how == "str" then
      match F.parse (unhex arg) with
      | .ok v => mk v
      | .error k => some (s, "err " ++ toString k)
    else none
  | .eBin dst op a b =>
    let ra := eGet env s a; let rb := eGet env s b
    -- a.Copy().Op(b); Times = Copy().Mult(b) = Prod(copy, copy, b)
    let (_, r, _) := if op == "times" then eProdFn env ra ra rb true false else eInPlace env op ra rb
    some ({ s with es := St.setL s.es dst r }, "ok " ++ showE env r)
  | .eUn dst op a =>
    let ra := eGet env s a
    let F := fld env ra.home
    let r : EReg α :=
      if op == "copy" then ra
      else if op == "neg" then { ra with val := F.neg ra.val }
      else if op == "trace" then (if ra.err.isErr then ra else { ra with val := F.trace ra.val })
      else -- inv
        if ra.err.isErr then ra
        else match F.inv ra.val with
          | some v => { ra with val := v }
          | none => { home := ra.home, val := F.zero, err := .kind .inputValue }
    some ({ s with es := St.setL s.es dst r }, "ok " ++ showE env r)
  | .ePow dst a n =>
    let ra := eGet env s a
    let r : EReg α := if ra.err.isErr then ra else { ra with val := (fld env ra.home).pow ra.val n }
    some ({ s with es := St.setL s.es dst r }, "ok " ++ showE env r)
  | .eIn op a b =>
    let ra := eGet env s a; let rb := eGet env s b
    let (ra', r, isRecv) := if op == "mult" then eProdFn env ra ra rb true (a == b) else eInPlace env op ra rb
    some ({ s with es := St.setL s.es a ra' }, ret isRecv (showE env r))
  | .eProd a b c =>
    let (ra', r, isRecv) := eProdFn env (eGet env s a) (eGet env s b) (eGet env s c) (a == b) (a == c)
    some ({ s with es := St.setL s.es a ra' }, ret isRecv (showE env r))
  | .eSetNeg a =>
    let ra := eGet env s a
    let r := { ra with val := (fld env ra.home).neg ra.val }
    some ({ s with es := St.setL s.es a r }, ret true (showE env r))
  | .eSetU a n =>
    let ra := eGet env s a
    let r := { ra with val := (fld env ra.home).ofNat n }
    some ({ s with es := St.setL s.es a r }, ret true (showE env r))
  | .eEq a b =>
    let ra := eGet env s a; let rb := eGet env s b
    let F := fld env ra.home
    some (s, "eq " ++ toString (!ra.foreign && !rb.foreign && ra.home == rb.home && F.beq ra.val rb.val))
  | .eShow a =>
    let ra := eGet env s a
    let F := fld env ra.home
    some (s, "show z=" ++ toString (F.isZero ra.val) ++ " o=" ++ toString (F.isOne ra.val) ++
      " n=" ++ toString (F.nTerms ra.val) ++ " s=" ++ F.toStr ra.val)
  | _ => none

/-! ### univariate polynomials -/

def uGet (s : St α) (k : Nat) : UReg α :=
  (St.getL s.us k).getD { home := 0, val := UPoly.zero (F0 env), err := .kind .internal }

def uring (i : Nat) : UPoly.Ring α := env.uring i

/-- `checkErrAndCompatible(op, f, g...)` : the polynomial returned when a check fails -/
def uCheck (f : UReg α) (gs : List (UReg α)) : Option (UReg α × Bool) :=
  if f.err.isErr then some ({ f with err := f.err.wrapInherit }, true)
  else match gs.find? (·.err.isErr) with
    | some g => some ({ g with err := g.err.wrapInherit }, false)
    | none =>
      if gs.any (·.home ≠ f.home) then
        some ({ home := f.home, val := UPoly.zero (F0 env), err := .kind .arithmeticIncompat }, false)
      else none

/-- `reduce()` of a polynomial in its home ring; fuel exhaustion is reported as Internal -/
def uReduce (r : UReg α) : UReg α :=
  if r.err.isErr then r
  else match UPoly.reduceIn (uring env r.home) r.val with
    | some v => { r with val := v }
    | none => { r with err := .kind .internal }

/-- in-place Add / Sub: new receiver, returned object, is-receiver -/
def uInPlace (op : String) (a b : UReg α) : UReg α × UReg α × Bool :=
  match uCheck env a [b] with
  | some (r, true) => (r, r, true)
  | some (r, false) => (a, r, false)
  | none =>
    let F := F0 env
    let r := { a with val := if op == "add" || op == "plus" then UPoly.add F a.val b.val else UPoly.sub F a.val b.val }
    (r, r, true)

/-- `multNoReduce` then `reduce` : the product object (fresh unless a check failed) -/
def uTimes (a b : UReg α) : UReg α :=
  match uCheck env a [b] with
  | some (r, _) => r
  | none => uReduce env { a with val := UPoly.mulNoReduce (F0 env) a.val b.val }

/-- is the scalar usable: error-free element of the ring's field object -/
def goodScalar (e : EReg α) : Bool := !e.foreign && !e.err.isErr && e.home == 0

/-- `SetScale(c)` / `Scale(c)` do not check their scalar (recorded finding PF-18): a usable scalar
    scales; an unusable one (carrying an error, or of another field object) whose value is zero still
    takes the `c.IsZero()` shortcut, otherwise every coefficient product fails and nothing changes. -/
def scalarEffect (e : EReg α) : Option Bool :=   -- some true = scale, some false = set to zero, none = unchanged
  if goodScalar e then some true
  else if !e.foreign && (fld env e.home).isZero e.val then some false
  else none

def stepU (s : St α) : Op → Option (St α × String)
  | .uCtor dst ring how arg =>
    let R := uring env ring
    let fin (o : Option (UPoly α)) : Option (St α × String) :=
      let r : UReg α := match o with
        | some v => { home := ring, val := v }
        | none => { home := ring, val := UPoly.zero R.F, err := .kind .internal }
      some ({ s with us := St.setL s.us dst r }, "ok " ++ showU env r)
    if how == "coefs" then (decU env arg).bind fun cs => fin (UPoly.ofCoefs R cs)
    else if how == "nats" then fin (UPoly.ofNats R (parseNatList arg))
    else if how == "ints" then fin (UPoly.ofInts R (parseIntList arg))
    else if how == "zero" then fin (some (UPoly.zero R.F))
    else if how == "one" then fin (some (UPoly.one R.F))
    else if how == "regs" then
      -- `Polynomial([]ff.Element{…})` from element registers (the constructor copies them)
      fin (UPoly.ofCoefs R ((if arg == "-" then [] else arg.splitOn ",").map fun t => (eGet env s ((t.drop 1).toString.toNat!)).val))
    else if how == "ideal" then
      -- `r.NewIdeal(gens...)`, the reply shows `Generator()`
      let gens := (if arg == "-" then [] else arg.splitOn ",").map fun t => uGet env s ((t.drop 1).toString.toNat!)
      if gens.isEmpty then some (s, "err InputValue")
      else if gens.any (·.home ≠ ring) then some (s, "err InputIncompatible")
      else match UPoly.newIdeal R.F (gens.map (·.val)) with
        | none => some (s, "fuel-exhausted")
        | some g =>
          if UPoly.isZero R.F g then some (s, "err InputValue")
          else
            let r : UReg α := { home := ring, val := g }
            some ({ s with us := St.setL s.us dst r }, "ok " ++ showU env r)
    else if how == "str" then
      match UPoly.parse R (unhex arg) with
      | .ok o => fin o
      | .error k =>
        -- the zero polynomial is returned together with the error; the register receives it
        let r : UReg α := { home := ring, val := UPoly.zero R.F }
        some ({ s with us := St.setL s.us dst r }, "err " ++ toString k)
    else none
  | .uBin dst op a b =>
    let ra := uGet env s a; let rb := uGet env s b
    let r := if op == "times" then uTimes env ra rb else (uInPlace env op ra rb).2.1
    some ({ s with us := St.setL s.us dst r }, "ok " ++ showU env r)
  | .uUn dst op a =>
    let ra := uGet env s a
    let F := F0 env
    let r : UReg α :=
      if op == "copy" then ra
      else if op == "neg" then { ra with val := UPoly.neg F ra.val }
      else if op == "normalize" then { ra with val := UPoly.normalize F ra.val }
      else { home := ra.home, val := UPoly.lt F ra.val }    -- lt: fresh, no error carried
    some ({ s with us := St.setL s.us dst r }, "ok " ++ showU env r)
  | .uScale dst a e =>
    let ra := uGet env s a; let re := eGet env s e
    let r := match scalarEffect env re with
      | some true => { ra with val := UPoly.scale (F0 env) ra.val re.val }
      | some false => { ra with val := UPoly.zero (F0 env) }
      | none => ra
    some ({ s with us := St.setL s.us dst r }, "ok " ++ showU env r)
  | .uPow dst a n =>
    let ra := uGet env s a
    let r : UReg α :=
      if ra.err.isErr then { ra with err := ra.err.wrapInherit }
      else match UPoly.pow (uring env ra.home) ra.val n with
        | some v => { ra with val := v }
        | none => { ra with err := .kind .internal }
    some ({ s with us := St.setL s.us dst r }, "ok " ++ showU env r)
  | .uEval dst a e =>
    let ra := uGet env s a; let re := eGet env s e
    let F := F0 env
    -- an unusable point (PF-18b): every `power.Mult(point)` fails, the running power stays 1 and the
    -- result is the sum of the coefficients, i.e. the value at 1
    let v := if goodScalar re then UPoly.eval F ra.val re.val else UPoly.eval F ra.val F.one
    let r : EReg α := { home := 0, val := v }
    some ({ s with es := St.setL s.es dst r }, "ok " ++ showE env r)
  | .uCoef dst a d =>
    let ra := uGet env s a
    let r : EReg α := { home := 0, val := UPoly.coef (F0 env) ra.val d }
    some ({ s with es := St.setL s.es dst r }, "ok " ++ showE env r)
  | .uLc dst a =>
    let ra := uGet env s a
    let r : EReg α := { home := 0, val := UPoly.lc (F0 env) ra.val }
    some ({ s with es := St.setL s.es dst r }, "ok " ++ showE env r)
  | .uIn op a b =>
    let ra := uGet env s a; let rb := uGet env s b
    if op == "mult" then
      -- `*f = *f.multNoReduce(g)`: on a failed check the receiver is overwritten by the returned object
      let r := uTimes env ra rb
      some ({ s with us := St.setL s.us a r }, ret true (showU env r))
    else
      let (ra', r, isRecv) := uInPlace env op ra rb
      some ({ s with us := St.setL s.us a ra' }, ret isRecv (showU env r))
  | .uSetNeg a =>
    let ra := uGet env s a
    let r := { ra with val := UPoly.neg (F0 env) ra.val }
    some ({ s with us := St.setL s.us a r }, ret true (showU env r))
  | .uSetScale a e =>
    let ra := uGet env s a; let re := eGet env s e
    let r := match scalarEffect env re with
      | some true => { ra with val := UPoly.scale (F0 env) ra.val re.val }
      | some false => { ra with val := UPoly.zero (F0 env) }
      | none => ra
    some ({ s with us := St.setL s.us a r }, ret true (showU env r))
  | .uSetCoef op a d e =>
    let ra := uGet env s a; let re := eGet env s e
    let F := F0 env
    -- `IncrementCoef` / `DecrementCoef` add to / subtract from the coefficient object in place; with a scalar that
    -- carries an error or belongs to another field object that element operation fails and the coefficient stays
    -- as it is (no error reaches the polynomial: the PF-18 family). A zero or absent coefficient is replaced by a copy
    -- of the scalar. (Scalars of another implementation type are not generated for these operations.)
    let stuck := op != "set" && !goodScalar re && !re.foreign && !F.isZero (UPoly.coef F ra.val d)
    let v := if stuck then ra.val
             else if op == "set" then UPoly.setCoef F ra.val d re.val
             else if op == "inc" then UPoly.incCoef F ra.val d re.val
             else UPoly.decCoef F ra.val d re.val
    let r := { ra with val := v }
    some ({ s with us := St.setL s.us a r }, ret true (showU env r))
  | .uSetZero a =>
    let ra := uGet env s a
    let r := { ra with val := UPoly.zero (F0 env) }
    some ({ s with us := St.setL s.us a r }, ret true (showU env r))
  | .uEmbed a ring reduce =>
    let ra := uGet env s a
    -- rings 0 and 1 share the underlying `ring` object, ring 2 is a different one
    if (ra.home == 2) != (ring == 2) then some (s, "err InputIncompatible")
    else
      let r := if reduce then uReduce env { ra with home := ring, err := ra.err.wrapInherit |> fun e => if ra.err.isErr then e else .none }
               else { ra with home := ring }
      some ({ s with us := St.setL s.us a r }, "ok " ++ showU env r)
  | .uQuoRem dsts a gs =>
    let ra := uGet env s a; let rgs := gs.map (uGet env s)
    match uCheck env ra rgs with
    | some (r, _) => some (s, "err " ++ toString r.err)
    | none =>
      match UPoly.quoRem (F0 env) (UPoly.quoRemFuel ra.val) ra.val (rgs.map (·.val)) with
      | .error k => some (s, "err " ++ toString k)
      | .ok none => some (s, "fuel-exhausted")
      | .ok (some (qs, r)) =>
        let outs := qs ++ [r]
        let us := (dsts.zip outs).foldl (fun us (k, v) => St.setL us k { home := ra.home, val := v }) s.us
        some ({ s with us := us }, "ok " ++ " ".intercalate (outs.map (encU env)))
  | .uGcd dst gs =>
    match gs.map (uGet env s) with
    | [] => none
    | f :: rest =>
      if rest.any (·.home ≠ f.home) then some (s, "err InputIncompatible")
      else if rest.isEmpty then
        -- (after "fix: Gcd of one polynomial returns a copy")
        some ({ s with us := St.setL s.us dst f }, "ok " ++ showU env f)
      else match uCheck env f rest with
        | some (r, _) => some (s, "err " ++ toString r.err)
        | none =>
          match UPoly.gcd (F0 env) f.val (rest.map (·.val)) with
          | some g =>
            let r : UReg α := { home := f.home, val := g }
            some ({ s with us := St.setL s.us dst r }, "ok " ++ showU env r)
          | none => some (s, "fuel-exhausted")
  | .uInterp dst ring pts vals =>
    let ps := pts.map fun k => (eGet env s k).val
    let vs := vals.map fun k => (eGet env s k).val
    match UPoly.interpolate (F0 env) ps vs with
    | .error k => some (s, "err " ++ toString k)
    | .ok v =>
      let r : UReg α := { home := ring, val := v }
      some ({ s with us := St.setL s.us dst r }, "ok " ++ showU env r)
  | .uEq a b =>
    let ra := uGet env s a; let rb := uGet env s b
    some (s, "eq " ++ toString (ra.home == rb.home && UPoly.equal (F0 env) ra.val rb.val))
  | .uObs a =>
    let ra := uGet env s a
    let F := F0 env
    some (s, "obs ld=" ++ toString (UPoly.ld ra.val) ++ " lc=" ++ F.enc (UPoly.lc F ra.val) ++
      " degs=" ++ ",".intercalate ((UPoly.degrees F ra.val).map toString) ++
      " n=" ++ toString (UPoly.nTerms F ra.val) ++ " z=" ++ toString (UPoly.isZero F ra.val) ++
      " o=" ++ toString (UPoly.isOne F ra.val) ++ " m=" ++ toString (UPoly.isMonomial F ra.val) ++
      " s=" ++ UPoly.toStr F (uring env ra.home).varName ra.val)
  | _ => none

/-! ### bivariate polynomials and ideals -/

def bGet (s : St α) (k : Nat) : BReg α :=
  (St.getL s.bs k).getD { home := 0, val := [], err := .kind .internal }

def bring (i : Nat) : BPoly.Ring α := env.bring i

/-- bivariate `checkErrAndCompatible` -/
def bCheck (f : BReg α) (gs : List (BReg α)) : Option (BReg α × Bool) :=
  if f.err.isErr then some ({ f with err := f.err.wrapInherit }, true)
  else match gs.find? (·.err.isErr) with
    | some g => some ({ g with err := g.err.wrapInherit }, false)
    | none =>
      if gs.any (·.home ≠ f.home) then
        some ({ home := f.home, val := [], err := .kind .arithmeticIncompat }, false)
      else none

def bReduce (r : BReg α) : BReg α :=
  if r.err.isErr then r
  else match BPoly.reduceIn (bring env r.home) r.val with
    | some v => { r with val := v }
    | none => { r with err := .kind .internal }

def bInPlace (op : String) (a b : BReg α) : BReg α × BReg α × Bool :=
  match bCheck a [b] with
  | some (r, true) => (r, r, true)
  | some (r, false) => (a, r, false)
  | none =>
    let F := F0 env
    let r := { a with val := if op == "add" || op == "plus" then BPoly.add F a.val b.val else BPoly.sub F a.val b.val }
    (r, r, true)

def bTimes (a b : BReg α) : BReg α :=
  match bCheck a [b] with
  | some (r, _) => r
  | none => match BPoly.mulNoReduce (F0 env) a.val b.val with
    | some h => bReduce env { a with val := h }
    | none => { home := a.home, val := [], err := .kind .overflow }

def iGet (s : St α) (k : Nat) : BPoly.Ideal α := (St.getL s.ids k).getD { gens := [] }

def showFlags (id : BPoly.Ideal α) : String :=
  "flags=" ++ toString id.isGroebner ++ "," ++ toString id.isMinimal ++ "," ++ toString id.isReduced

def stepB (s : St α) : Op → Option (St α × String)
  | .bCtor dst ring how arg =>
    let R := bring env ring
    let fin (o : Option (BPoly α)) : Option (St α × String) :=
      let r : BReg α := match o with
        | some v => { home := ring, val := v }
        | none => { home := ring, val := [], err := .kind .internal }
      some ({ s with bs := St.setL s.bs dst r }, "ok " ++ showB env r)
    let triples (f : String → α) : List (Deg × α) :=
      if arg == "" || arg == "-" then [] else (arg.splitOn "/").filterMap fun t =>
        match t.splitOn ":" with
        | [x, y, c] => some ((x.toNat!, y.toNat!), f c)
        | _ => none
    if how == "map" then (decB env arg).bind fun m => fin (BPoly.ofMap R m)
    else if how == "nats" then fin (BPoly.ofMap R (triples fun c => R.F.ofNat c.toNat!))
    else if how == "ints" then fin (BPoly.ofMap R (triples fun c => R.F.ofInt (parseInt c)))
    else if how == "zero" then fin (some [])
    else if how == "embed" then
      -- `c := src.Copy(); c.EmbedIn(ring, reduce)`; `arg` = "q<k>:<0|1>". Rings 0 and 1 share the underlying
      -- ring object, ring 2 is a different one (InputIncompatible).
      match arg.splitOn ":" with
      | [srcS, redS] =>
        let ra := bGet s ((srcS.drop 1).toString.toNat!)
        if (ra.home == 2) != (ring == 2) then some (s, "err InputIncompatible")
        else
          let r : BReg α := if redS == "1" then bReduce env { ra with home := ring } else { ra with home := ring }
          some ({ s with bs := St.setL s.bs dst r }, "ok " ++ showB env r)
      | _ => none
    else if how == "regs" then
      -- `Polynomial(map[[2]uint]ff.Element{…})` from element registers (the constructor copies them)
      fin (BPoly.ofMap R ((if arg == "-" then [] else arg.splitOn "/").filterMap fun t =>
        match t.splitOn ":" with
        | [x, y, e] => some ((x.toNat!, y.toNat!), (eGet env s ((e.drop 1).toString.toNat!)).val)
        | _ => none))
    else if how == "str" then
      match BPoly.parse R (unhex arg) with
      | .ok o => fin o
      | .error k =>
        let r : BReg α := { home := ring, val := [] }
        some ({ s with bs := St.setL s.bs dst r }, "err " ++ toString k)
    else none
  | .bBin dst op a b =>
    let ra := bGet s a; let rb := bGet s b
    let r := if op == "times" then bTimes env ra rb else (bInPlace env op ra rb).2.1
    some ({ s with bs := St.setL s.bs dst r }, "ok " ++ showB env r)
  | .bUn dst op a =>
    let ra := bGet s a
    let F := F0 env
    let o := bord env ra.home
    let r : BReg α :=
      if op == "copy" then ra
      else if op == "neg" then { ra with val := BPoly.neg F ra.val }
      else if op == "normalize" then { ra with val := BPoly.normalize F o ra.val }
      else { home := ra.home, val := BPoly.lt F o ra.val }
    some ({ s with bs := St.setL s.bs dst r }, "ok " ++ showB env r)
  | .bScale dst a e =>
    let ra := bGet s a; let re := eGet env s e
    let F := F0 env
    let r : BReg α :=
      match scalarEffect env re with
      | none => ra
      | some false => { ra with val := [] }
      | some true => if F.isZero re.val then { ra with val := [] } else { ra with val := BPoly.scale F ra.val re.val }
    some ({ s with bs := St.setL s.bs dst r }, "ok " ++ showB env r)
  | .bPow dst a n =>
    let ra := bGet s a
    let r : BReg α :=
      if ra.err.isErr then { ra with err := ra.err.wrapInherit }
      else match BPoly.pow (bring env ra.home) ra.val n with
        | .ok (some v) => { ra with val := v }
        | .ok none => { ra with err := .kind .internal }
        | .error k => { home := ra.home, val := [], err := .kind k }
    some ({ s with bs := St.setL s.bs dst r }, "ok " ++ showB env r)
  | .bEval dst a x y =>
    let ra := bGet s a
    let rx := eGet env s x; let ry := eGet env s y
    -- `out.Plus(coef.Times(x.Pow(i)).Times(y.Pow(j)))`: the value-returning element operations check
    -- their operands, so an unusable coordinate (carrying an error, or of another field object) makes
    -- every term, and hence the result, erroneous — provided there is a term at all
    let bad (e : EReg α) : Option Err :=
      if e.err.isErr then some e.err.wrapInherit
      else if e.home ≠ 0 then some (.kind .arithmeticIncompat) else none
    let r : EReg α :=
      match (if ra.val.isEmpty then none else (bad rx).orElse fun _ => bad ry) with
      | some k => { home := 0, val := (F0 env).zero, err := k }
      | none => { home := 0, val := BPoly.eval (F0 env) ra.val rx.val ry.val }
    some ({ s with es := St.setL s.es dst r }, "ok " ++ showE env r)
  | .bCoef dst a d =>
    let r : EReg α := { home := 0, val := BPoly.coef (F0 env) (bGet s a).val d }
    some ({ s with es := St.setL s.es dst r }, "ok " ++ showE env r)
  | .bLc dst a =>
    let ra := bGet s a
    let r : EReg α := { home := 0, val := BPoly.lc (F0 env) (bord env ra.home) ra.val }
    some ({ s with es := St.setL s.es dst r }, "ok " ++ showE env r)
  | .bIn op a b =>
    let ra := bGet s a; let rb := bGet s b
    if op == "mult" then
      let r := bTimes env ra rb
      some ({ s with bs := St.setL s.bs a r }, ret true (showB env r))
    else
      let (ra', r, isRecv) := bInPlace env op ra rb
      some ({ s with bs := St.setL s.bs a ra' }, ret isRecv (showB env r))
  | .bSetScale a e =>
    let ra := bGet s a; let re := eGet env s e
    let r := match scalarEffect env re with
      | some true => { ra with val := BPoly.scale (F0 env) ra.val re.val }
      | some false => { ra with val := [] }
      | none => ra
    some ({ s with bs := St.setL s.bs a r }, ret true (showB env r))
  | .bSetCoef op a d e =>
    let ra := bGet s a; let re := eGet env s e
    let F := F0 env
    -- as in the univariate case: a present term is changed through its coefficient object, which refuses an
    -- unusable scalar; an absent term receives a copy of the scalar
    let stuck := op != "set" && !goodScalar re && !re.foreign && ra.val.any (·.1 == d)
    let v := if stuck then ra.val
             else if op == "set" then BPoly.setCoef F ra.val d re.val
             else if op == "inc" then BPoly.incCoef F ra.val d re.val
             else BPoly.decCoef F ra.val d re.val
    let r := { ra with val := v }
    some ({ s with bs := St.setL s.bs a r }, ret true (showB env r))
  | .bQuoRem dsts a gs =>
    let ra := bGet s a; let rgs := gs.map (bGet s)
    match bCheck ra rgs with
    | some (r, _) => some (s, "err " ++ toString r.err)
    | none =>
      let o := bord env ra.home
      match BPoly.quoRem (F0 env) o BPoly.divFuel none ra.val (rgs.map (·.val)) with
      | .error k => some (s, "err " ++ toString k)
      | .ok none => some (s, "fuel-exhausted")
      | .ok (some (qs, r)) =>
        let outs := qs ++ [r]
        let bs := (dsts.zip outs).foldl (fun bs (k, v) => St.setL bs k { home := ra.home, val := v }) s.bs
        some ({ s with bs := bs }, "ok " ++ " ".intercalate (outs.map (encB env o)))
  | .bRem dst a gs =>
    let ra := bGet s a; let rgs := gs.map (bGet s)
    match bCheck ra rgs with
    | some (r, _) => some (s, "err " ++ toString r.err)
    | none =>
      let o := bord env ra.home
      match BPoly.rem (F0 env) o BPoly.divFuel ra.val (rgs.map (·.val)) with
      | .error k => some (s, "err " ++ toString k)
      | .ok none => some (s, "fuel-exhausted")
      | .ok (some r) =>
        some ({ s with bs := St.setL s.bs dst { home := ra.home, val := r } }, "ok " ++ encB env o r)
  | .bInterp dst ring xs ys vals =>
    let pts := (xs.zip ys).map fun (x, y) => ((eGet env s x).val, (eGet env s y).val)
    let vs := vals.map fun k => (eGet env s k).val
    match BPoly.interpolate (bring env ring) pts vs with
    | .error k => some (s, "err " ++ toString k)
    | .ok none => some (s, "fuel-exhausted")
    | .ok (some v) =>
      let r : BReg α := { home := ring, val := v }
      some ({ s with bs := St.setL s.bs dst r }, "ok " ++ showB env r)
  | .bEq a b =>
    let ra := bGet s a; let rb := bGet s b
    some (s, "eq " ++ toString (ra.home == rb.home && BPoly.equal (F0 env) ra.val rb.val))
  | .bObs a =>
    let ra := bGet s a
    let F := F0 env
    let o := bord env ra.home
    let l := BPoly.ld o ra.val
    some (s, "obs ld=" ++ toString l.1 ++ ":" ++ toString l.2 ++ " lc=" ++ F.enc (BPoly.lc F o ra.val) ++
      " z=" ++ toString (BPoly.isZero ra.val) ++ " m=" ++ toString (BPoly.isMonomial ra.val) ++
      " lt=" ++ encB env o (BPoly.lt F o ra.val) ++
      " s=" ++ BPoly.toStr (bring env ra.home) ra.val)
  | .iNew dst ring gs =>
    let rgs := gs.map (bGet s)
    if rgs.any (·.home ≠ ring) then some (s, "err InputIncompatible")
    else
      let gens := (rgs.map (·.val)).filter (!·.isEmpty)
      if gens.isEmpty then some (s, "err InputValue")
      else
        let id : BPoly.Ideal α := { gens := gens }
        some ({ s with ids := St.setL s.ids dst id }, "ok " ++ showGens env (bord env 0) gens)
  | .iCopy dst a =>
    let id := iGet s a
    some ({ s with ids := St.setL s.ids dst id }, "ok " ++ showFlags id)
  | .iGroebner dst a =>
    let id := iGet s a
    match id.groebnerBasis (F0 env) (bord env 0) with
    | none => some (s, "fuel-exhausted")
    | some g => some ({ s with ids := St.setL s.ids dst g }, "ok " ++ showGens env (bord env 0) g.gens)
  | .iPred which a =>
    let id := iGet s a
    let F := F0 env; let o := bord env 0
    let res := if which == "groebner" then id.isGroebnerQ F o
               else if which == "minimal" then id.isMinimalQ F o else id.isReducedQ F o
    match res with
    | none => some (s, "fuel-exhausted")
    | some (id', b) => some ({ s with ids := St.setL s.ids a id' }, "pred " ++ toString b)
  | .iXform which a =>
    let id := iGet s a
    let F := F0 env; let o := bord env 0
    if which == "quotient" then
      -- `ring0.Quotient(id)`: the ideal object given by the caller is left as it is
      match BPoly.quotientGens F o id with
      | none => some (s, "fuel-exhausted")
      | some _ => some (s, "ok")
    else
    let res := if which == "minimize" then id.minimizeBasis F o else id.reduceBasis F o
    match res with
    | none => some (s, "fuel-exhausted")
    | some (id', .ok ()) => some ({ s with ids := St.setL s.ids a id' }, "ok")
    | some (id', .error k) => some ({ s with ids := St.setL s.ids a id' }, "err " ++ toString k)
  | .iGens dsts a =>
    let id := iGet s a
    let bs := (dsts.zip id.gens).foldl (fun bs (k, v) => St.setL bs k { home := 0, val := v }) s.bs
    some ({ s with bs := bs }, "ok " ++ toString id.gens.length)
  | .iObs a =>
    let id := iGet s a
    some (s, "obs " ++ showFlags id ++ " gens=" ++ showGens env (bord env 0) id.gens)
  | _ => none

/-- `ComputeTables(add, mult, maxMem...)` / `ComputeMultTable(maxMem...)`: a table that already exists
    is not recomputed (no error whatever the limit); otherwise the estimate is compared with the limit.
    Only table *presence* is recorded; table contents never influence any other operation of the model
    (that they do not in the code either is theorem `lookup_newTable` + the twin correspondence runs). -/
def stepT (desc : FieldDesc) (s : St α) : Op → Option (St α × String)
  | .tables f add mult maxMem =>
    match desc with
    | .prime p =>
      let needAdd := add && !s.addTabs.contains f
      let needMul := mult && !s.mulTabs.contains f
      let tooBig := Prime.estimateMemory p > maxMem.getD Gen.primeDefaultMaxMem
      -- the error of the addition table is overwritten by the result for the multiplication table
      let s1 := if needAdd && !tooBig then { s with addTabs := f :: s.addTabs } else s
      let s2 := if needMul && !tooBig then { s1 with mulTabs := f :: s1.mulTabs } else s1
      let err := if needMul then tooBig else (needAdd && tooBig)
      some (s2, if err then "err InputTooLarge" else "ok")
    | .ext p n _ =>
      if s.mulTabs.contains f then some (s, "ok")
      else
        let elemSize := w64 (n * uintSize) / 8
        let est := w64 (wsub (Ext.card p n) 1 * w64 (1 + elemSize)) >>> 10
        if est > maxMem.getD Gen.extDefaultMaxMem then some (s, "err InputTooLarge")
        else some ({ s with mulTabs := f :: s.mulTabs }, "ok")
    | .bin _ _ => some (s, "ok")
  | _ => none

def step (desc : FieldDesc) (s : St α) (op : Op) : St α × String :=
  match stepE env s op with
  | some r => r
  | none => match stepU env s op with
    | some r => r
    | none => match stepB env s op with
      | some r => r
      | none => match stepT desc s op with
        | some r => r
        | none => (s, "bad-op")

end step
end Algobra
