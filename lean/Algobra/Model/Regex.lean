/-
  Model/Regex.lean — a small backtracking regular-expression engine with leftmost-first
  (Perl/RE2 `regexp`) semantics for the syntax subset the library's five parsers use:
  literals, escapes, `\s`, bracket classes, `^`, groups `( ) (?: ) (?P<n> ) (?i: )`, `|`, `* + ?`.
  The pattern *strings* are assembled exactly as the Go code assembles them (fragments are
  regenerated from the source into `Gen/Consts.lean`), parsed here, and run with the
  `FindStringSubmatch` / `FindAllStringSubmatch` iteration rules of Go's `regexp` package.
  ASCII only (`(?i:` folds ASCII letters). Executable-only (`partial`): used by the driver, not by proofs.
  CORE LEAN ONLY.
-/
namespace Algobra.Regex

inductive Re where
  | eps
  | chr (c : Char) (ci : Bool)
  | cls (neg : Bool) (ranges : List (Char × Char))
  | ws
  | bol
  | seq (a b : Re)
  | alt (a b : Re)
  | star (r : Re)
  | plus (r : Re)
  | opt (r : Re)
  | cap (idx : Nat) (r : Re)
  deriving Repr, Inhabited

structure PState where
  s : Array Char
  pos : Nat
  ncap : Nat
  ci : Bool
  ok : Bool := true

def isWs (c : Char) : Bool := c == ' ' || c == '\t' || c == '\n' || c == '\x0c' || c == '\r'

def lower (c : Char) : Char := if c.isUpper then Char.ofNat (c.toNat + 32) else c

mutual
  /-- alternation level -/
  partial def parseAlt (st : PState) : Re × PState :=
    let (a, st) := parseSeq st
    if st.pos < st.s.size && st.s[st.pos]! == '|' then
      let (b, st) := parseAlt { st with pos := st.pos + 1 }
      (.alt a b, st)
    else (a, st)

  partial def parseSeq (st : PState) : Re × PState :=
    if st.pos ≥ st.s.size then (.eps, st)
    else
      let c := st.s[st.pos]!
      if c == '|' || c == ')' then (.eps, st)
      else
        let (a, st) := parseRep st
        let (b, st) := parseSeq st
        (match b with | .eps => a | _ => .seq a b, st)

  partial def parseRep (st : PState) : Re × PState :=
    let (a, st) := parseAtom st
    parseQuant a st

  partial def parseQuant (a : Re) (st : PState) : Re × PState :=
    if st.pos < st.s.size then
      let c := st.s[st.pos]!
      if c == '*' then parseQuant (.star a) { st with pos := st.pos + 1 }
      else if c == '+' then parseQuant (.plus a) { st with pos := st.pos + 1 }
      else if c == '?' then parseQuant (.opt a) { st with pos := st.pos + 1 }
      else (a, st)
    else (a, st)

  partial def parseAtom (st : PState) : Re × PState :=
    let c := st.s[st.pos]!
    if c == '(' then
      -- group
      if st.pos + 2 < st.s.size && st.s[st.pos + 1]! == '?' then
        let c2 := st.s[st.pos + 2]!
        if c2 == ':' then
          let (r, st') := parseAlt { st with pos := st.pos + 3 }
          (r, closeParen st')
        else if c2 == 'i' && st.s[st.pos + 3]! == ':' then
          let (r, st') := parseAlt { st with pos := st.pos + 4, ci := true }
          (r, { closeParen st' with ci := st.ci })
        else if c2 == 'P' then
          -- (?P<name>
          let rec skip (p : Nat) : Nat := if p < st.s.size && st.s[p]! != '>' then skip (p + 1) else p + 1
          let idx := st.ncap + 1
          let (r, st') := parseAlt { st with pos := skip (st.pos + 3), ncap := idx }
          (.cap idx r, closeParen st')
        else (.eps, { st with ok := false })
      else
        let idx := st.ncap + 1
        let (r, st') := parseAlt { st with pos := st.pos + 1, ncap := idx }
        (.cap idx r, closeParen st')
    else if c == '[' then
      let neg := st.pos + 1 < st.s.size && st.s[st.pos + 1]! == '^'
      let start := if neg then st.pos + 2 else st.pos + 1
      -- a `]` directly after `[` or `[^` is a literal
      let rec items (p : Nat) (first : Bool) (acc : List (Char × Char)) : List (Char × Char) × Nat :=
        if p ≥ st.s.size then (acc, p)
        else
          let c := st.s[p]!
          if c == ']' && !first then (acc, p + 1)
          else
            let (c, p) := if c == '\\' && p + 1 < st.s.size then (st.s[p + 1]!, p + 1) else (c, p)
            if p + 2 < st.s.size && st.s[p + 1]! == '-' && st.s[p + 2]! != ']' then
              items (p + 3) false ((c, st.s[p + 2]!) :: acc)
            else items (p + 1) false ((c, c) :: acc)
      let (rs, p) := items start true []
      (.cls neg rs, { st with pos := p })
    else if c == '\\' then
      let c2 := st.s[st.pos + 1]!
      if c2 == 's' then (.ws, { st with pos := st.pos + 2 })
      else (.chr c2 false, { st with pos := st.pos + 2 })
    else if c == '^' then (.bol, { st with pos := st.pos + 1 })
    else if c == '.' then (.cls true [('\n', '\n')], { st with pos := st.pos + 1 })
    else (.chr c st.ci, { st with pos := st.pos + 1 })

  partial def closeParen (st : PState) : PState :=
    if st.pos < st.s.size && st.s[st.pos]! == ')' then { st with pos := st.pos + 1 }
    else { st with ok := false }
end

/-- compile a pattern string; `none` when the pattern is not in the supported subset / ill-formed
    (mirrors `regexp.Compile` returning an error) -/
def compile (pat : String) : Option (Re × Nat) :=
  let st : PState := { s := pat.toList.toArray, pos := 0, ncap := 0, ci := false }
  let (r, st) := parseAlt st
  if st.ok && st.pos == st.s.size then some (r, st.ncap) else none

abbrev Caps := Array (Option (Nat × Nat))

/-- backtracking matcher in continuation-passing style; returns end position and captures of
    the highest-priority match. -/
partial def m (s : Array Char) : Re → Nat → Caps → (Nat → Caps → Option (Nat × Caps)) → Option (Nat × Caps)
  | .eps, i, c, k => k i c
  | .chr ch ci, i, c, k =>
    if i < s.size && (if ci then lower s[i]! == lower ch else s[i]! == ch) then k (i + 1) c else none
  | .cls neg rs, i, c, k =>
    if i < s.size then
      let x := s[i]!
      let inside := rs.any fun (lo, hi) => lo ≤ x && x ≤ hi
      if inside != neg then k (i + 1) c else none
    else none
  | .ws, i, c, k => if i < s.size && isWs s[i]! then k (i + 1) c else none
  | .bol, i, c, k => if i == 0 then k i c else none
  | .seq a b, i, c, k => m s a i c fun j c' => m s b j c' k
  | .alt a b, i, c, k =>
    match m s a i c k with
    | some r => some r
    | none => m s b i c k
  | .star r, i, c, k =>
    -- greedy: try one more iteration (only if it consumes), else continue
    match m s r i c (fun j c' => if j > i then m s (.star r) j c' k else none) with
    | some res => some res
    | none => k i c
  | .plus r, i, c, k => m s r i c fun j c' => m s (.star r) j c' k
  | .opt r, i, c, k =>
    match m s r i c k with
    | some res => some res
    | none => k i c
  | .cap idx r, i, c, k =>
    m s r i c fun j c' => k j (c'.set! idx (some (i, j)))

/-- leftmost-first match starting the search at `pos`: `(start, end, caps)` -/
partial def execute (re : Re) (ncap : Nat) (s : Array Char) (pos : Nat) : Option (Nat × Nat × Caps) :=
  if pos > s.size then none
  else
    match m s re pos (Array.replicate (ncap + 1) none) (fun j c => some (j, c)) with
    | some (e, c) => some (pos, e, c)
    | none => execute re ncap s (pos + 1)

def sub (s : Array Char) (a b : Nat) : String := String.ofList (s.extract a b).toList

def groups (s : Array Char) (st e : Nat) (c : Caps) : Array String :=
  (c.mapIdx fun i o => if i == 0 then sub s st e else match o with
    | some (a, b) => sub s a b
    | none => "")

/-- `FindStringSubmatch` : `none` = nil -/
def findSubmatch (re : Re) (ncap : Nat) (str : String) : Option (Array String) :=
  let s := str.toList.toArray
  match execute re ncap s 0 with
  | some (st, e, c) => some (groups s st e c)
  | none => none

/-- `FindAllStringSubmatch(s, -1)` following `regexp.(*Regexp).allMatches` -/
partial def findAllLoop (re : Re) (ncap : Nat) (s : Array Char) (pos : Nat) (prevEnd : Int)
    (acc : Array (Array String)) : Array (Array String) :=
  if pos > s.size then acc
  else
    match execute re ncap s pos with
    | none => acc
    | some (st, e, c) =>
      -- exactly the case analysis of Go's loop: `matches[1] == pos` is an empty match at `pos`
      let emptyAtPos := e == pos
      let accept := !(emptyAtPos && (Int.ofNat st) == prevEnd)
      let pos' := if emptyAtPos then (if pos < s.size then pos + 1 else s.size + 1) else e
      let acc := if accept then acc.push (groups s st e c) else acc
      findAllLoop re ncap s pos' (Int.ofNat e) acc

def findAll (re : Re) (ncap : Nat) (str : String) : Array (Array String) :=
  findAllLoop re ncap str.toList.toArray 0 (-1) #[]

/-- one operand of a Go string concatenation building a pattern: a literal, or the source text
    of a non-literal expression (resolved by the model through an environment) -/
inductive Part where
  | lit (s : String)
  | expr (s : String)
  deriving Repr, DecidableEq

/-- assemble a pattern from parts; `none` if some expression is unknown to the model -/
def assemble (env : String → Option String) : List Part → Option String
  | [] => some ""
  | .lit s :: t => (assemble env t).map (s ++ ·)
  | .expr e :: t => match env e, assemble env t with
    | some v, some r => some (v ++ r)
    | _, _ => none

/-- `regexp.QuoteMeta` -/
def quoteMeta (s : String) : String :=
  String.ofList (s.toList.flatMap fun c =>
    if "\\.+*?()|[]{}^$".toList.contains c then ['\\', c] else [c])

end Algobra.Regex
