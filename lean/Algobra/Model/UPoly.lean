/-
  Model/UPoly.lean — model of /repo/univariate (polynomial.go, arithmetic.go, ideal.go, ring.go,
  interpolation.go) over an arbitrary coefficient record `FOps α`.
  A polynomial is its coefficient slice (index = degree). Go's interior `nil` entries are
  unobservable through the API and are represented by zero elements. CORE LEAN ONLY.
-/
import Algobra.Model.Field
namespace Algobra

abbrev UPoly (α : Type) := List α

namespace UPoly
variable {α : Type} (F : FOps α)

/-- `Ld()` -/
def ld (f : UPoly α) : Nat := f.length - 1

/-- `Coef(d)` -/
def coef (f : UPoly α) (d : Nat) : α := f.getD d F.zero

/-- `Lc()` -/
def lc (f : UPoly α) : α := coef F f (ld f)

def zero : UPoly α := [F.zero]
def one : UPoly α := [F.one]

/-- `IsZero()` -/
def isZero (f : UPoly α) : Bool :=
  match f with
  | [c] => F.isZero c
  | _ => false

def isOne (f : UPoly α) : Bool :=
  match f with
  | [c] => F.isOne c
  | _ => false

/-- drop trailing zero entries (no lower bound on the length) -/
def dropTrailingZeros : List α → List α
  | [] => []
  | c :: t =>
    match dropTrailingZeros t with
    | [] => if F.isZero c then [] else [c]
    | t' => c :: t'

/-- `reslice()`: no leading zeros, but at least one entry -/
def trim (f : UPoly α) : UPoly α :=
  match dropTrailingZeros F f with
  | [] => [f.headD F.zero]
  | f' => f'

/-- canonical form: non-empty, and the last entry is nonzero unless the length is one -/
def Canon (f : UPoly α) : Prop := f ≠ [] ∧ (f.length > 1 → F.isZero (f.getLast?.getD F.zero) = false)

/-- pad with zeros and put `v` at position `d > ld f` -/
def extend (f : UPoly α) (d : Nat) (v : α) : UPoly α :=
  f ++ List.replicate (d - f.length) F.zero ++ [v]

/-- `SetCoefPtr / SetCoef` -/
def setCoef (f : UPoly α) (d : Nat) (v : α) : UPoly α :=
  if d ≤ ld f then
    let f' := f.set d v
    if F.isZero v then trim F f' else f'
  else if F.isZero v then f
  else extend F f d v

/-- `IncrementCoef` -/
def incCoef (f : UPoly α) (d : Nat) (v : α) : UPoly α :=
  if F.isZero v then f
  else if d ≤ ld f then trim F (f.set d (F.add (coef F f d) v))
  else extend F f d v

/-- `DecrementCoef` -/
def decCoef (f : UPoly α) (d : Nat) (v : α) : UPoly α :=
  if F.isZero v then f
  else if d ≤ ld f then trim F (f.set d (F.sub (coef F f d) v))
  else extend F f d (F.neg v)

/-- `removeCoef` -/
def removeCoef (f : UPoly α) (d : Nat) : UPoly α :=
  if d ≤ ld f then trim F (f.set d F.zero) else f

/-- fold a coefficient-wise update over the coefficients of `g` in increasing degree -/
def foldCoefs {β : Type} (g : UPoly α) (init : β) (step : β → Nat → α → β) : β :=
  (g.zipIdx).foldl (fun acc (c, i) => step acc i c) init

/-- `Add` -/
def add (f g : UPoly α) : UPoly α := foldCoefs g f fun acc d c => incCoef F acc d c

/-- `Sub` -/
def sub (f g : UPoly α) : UPoly α := foldCoefs g f fun acc d c => decCoef F acc d c

/-- `SetNeg` -/
def neg (f : UPoly α) : UPoly α := f.map F.neg

/-- `SetScale` -/
def scale (f : UPoly α) (c : α) : UPoly α :=
  if F.isZero c then zero F else f.map fun x => F.mul x c

/-- `Normalize`; the `none` branch of `inv` is unreachable (the leading coefficient of a nonzero
    polynomial is nonzero) -/
def normalize (f : UPoly α) : UPoly α :=
  if isZero F f || F.isOne (lc F f) then f
  else match F.inv (lc F f) with
    | some i => scale F f i
    | none => f

/-- `subWithShiftAndScale`: `f - a·X^i·g` -/
def subShiftScale (f g : UPoly α) (i : Nat) (a : α) : UPoly α :=
  if F.isZero a then f
  else if F.isOne a then
    foldCoefs g f fun acc d c => if F.isZero c then acc else decCoef F acc (d + i) c
  else
    foldCoefs g f fun acc d c => if F.isZero c then acc else decCoef F acc (d + i) (F.mul a c)

/-- `multNoReduce` (schoolbook, accumulating with IncrementCoef) -/
def mulNoReduce (f g : UPoly α) : UPoly α :=
  if isZero F f || isZero F g then zero F
  else
    foldCoefs f (zero F) fun h df cf =>
      if F.isZero cf then h
      else foldCoefs g h fun h dg cg =>
        if F.isZero cg then h else incCoef F h (df + dg) (F.mul cf cg)

/-- `Eval` (running power) -/
def eval (f : UPoly α) (x : α) : α :=
  (foldCoefs f (F.zero, F.one) fun (out, power) d c =>
    let power := if d > 0 then F.mul power x else power
    (F.add out (F.mul power c), power)).1

/-- `Degrees()` : support, highest first -/
def degrees (f : UPoly α) : List Nat :=
  ((f.zipIdx).filter fun (c, _) => !F.isZero c).map (·.2) |>.reverse

/-- `NTerms()` -/
def nTerms (f : UPoly α) : Nat := if isZero F f then 1 else (degrees F f).length

def isMonomial (f : UPoly α) : Bool := (degrees F f).length == 1

/-- `Lt()` -/
def lt (f : UPoly α) : UPoly α := setCoef F (zero F) (ld f) (lc F f)

/-- `Equal` for polynomials of one ring -/
def equal (f g : UPoly α) : Bool :=
  f.length == g.length && (f.zip g).all fun (a, b) => F.beq a b

/-! ### division -/

/-- index and value of the first divisor with `ld p ≥ ld g` -/
def firstFit (p : UPoly α) : List (UPoly α) → Nat → Option (Nat × UPoly α)
  | [], _ => none
  | g :: gs, i => if ld p ≥ ld g then some (i, g) else firstFit p gs (i + 1)

/-- the factor `lc p / lc g` as the code computes it -/
def lcQuot (p g : UPoly α) : α :=
  if F.isOne (lc F g) then F.mul (lc F p) (lc F g)
  else match F.inv (lc F g) with
    | some i => F.mul (lc F p) i
    | none => F.zero   -- unreachable: zero divisors are rejected before the loop

/-- main loop of `QuoRem`; `none` = fuel exhausted -/
def quoRemLoop (gs : List (UPoly α)) : Nat → UPoly α → List (UPoly α) → UPoly α →
    Option (List (UPoly α) × UPoly α)
  | 0, _, _, _ => none
  | fuel + 1, p, qs, r =>
    if isZero F p then some (qs, r)
    else match firstFit p gs 0 with
      | some (i, g) =>
        let t := lcQuot F p g
        let qs' := qs.set i (incCoef F (qs.getD i (zero F)) (ld p - ld g) t)
        quoRemLoop gs fuel (subShiftScale F p g (ld p - ld g) t) qs' r
      | none =>
        quoRemLoop gs fuel (removeCoef F p (ld p)) qs (incCoef F r (ld p) (lc F p))

/-- `QuoRem` (after "fix: zero divisor"): `.error inputValue` for a zero divisor -/
def quoRem (fuel : Nat) (f : UPoly α) (gs : List (UPoly α)) :
    Except Kind (Option (List (UPoly α) × UPoly α)) :=
  if gs.any (isZero F) then .error .inputValue
  else .ok (quoRemLoop F gs fuel f (gs.map fun _ => zero F) (zero F))

/-- fuel that suffices for `quoRemLoop` on `f` (each step lowers `ld p` or ends the loop) -/
def quoRemFuel (f : UPoly α) : Nat := 2 * f.length + 2

/-- `Ideal.Reduce`: repeated cancellation of the leading term by the monic generator -/
def reduceLoop (g : UPoly α) : Nat → UPoly α → Option (UPoly α)
  | 0, _ => none
  | fuel + 1, f =>
    if ld f ≥ ld g then reduceLoop g fuel (subShiftScale F f g (ld f - ld g) (lc F f))
    else some f

/-- (after "fix: unit ideals": a modulus of degree 0 generates the whole ring, everything reduces to zero) -/
def reduce (g f : UPoly α) : Option (UPoly α) :=
  if ld g = 0 then some (zero F) else reduceLoop F g (f.length + 1) f

/-- Euclid loop of `Gcd(f, g)` -/
def gcdLoop : Nat → UPoly α → UPoly α → Option (UPoly α)
  | 0, _, _ => none
  | fuel + 1, r0, r1 =>
    if isZero F r1 then some r0
    else match quoRemLoop F [r1] (quoRemFuel r0) r0 [zero F] (zero F) with
      | some (_, rem) => gcdLoop fuel r1 rem
      | none => none

def gcd2 (f g : UPoly α) : Option (UPoly α) := gcdLoop F (g.length + 2) f g

/-- `Gcd(f, g...)` (left fold, as the recursion in the code) -/
def gcd (f : UPoly α) (gs : List (UPoly α)) : Option (UPoly α) :=
  gs.foldl (fun acc g => acc.bind fun a => gcd2 F a g) (some f)

/-! ### rings -/

/-- a polynomial ring or quotient ring: coefficient field, variable name, optional monic modulus -/
structure Ring (α : Type) where
  F : FOps α
  varName : String
  modulus : Option (UPoly α)

/-- `(*Polynomial).reduce` in ring `R`; `none` = fuel exhausted (only for a degree-0 modulus) -/
def reduceIn (R : Ring α) (f : UPoly α) : Option (UPoly α) :=
  match R.modulus with
  | none => some f
  | some g => reduce R.F g f

/-- `Polynomial(coefs)` : set the nonzero coefficients, then reduce -/
def ofCoefs (R : Ring α) (cs : List α) : Option (UPoly α) :=
  reduceIn R (foldCoefs cs (zero R.F) fun acc d c => if R.F.isZero c then acc else setCoef R.F acc d c)

def ofNats (R : Ring α) (cs : List Nat) : Option (UPoly α) := ofCoefs R (cs.map R.F.ofNat)

def ofInts (R : Ring α) (cs : List Int) : Option (UPoly α) := ofCoefs R (cs.map R.F.ofInt)

/-- `Times` / `Mult` -/
def times (R : Ring α) (f g : UPoly α) : Option (UPoly α) := reduceIn R (mulNoReduce R.F f g)

/-- `Pow` (square and multiply, reducing after every product) -/
def powLoop (R : Ring α) : Nat → Nat → UPoly α → UPoly α → Option (UPoly α)
  | 0, _, _, _ => none
  | fuel + 1, n, out, g =>
    if n = 0 then some out
    else
      let out' := if n % 2 = 1 then times R out g else some out
      match out', times R g g with
      | some o, some g2 => powLoop R fuel (n / 2) o g2
      | _, _ => none

def pow (R : Ring α) (f : UPoly α) (n : Nat) : Option (UPoly α) :=
  match ofCoefs R [R.F.one] with
  | some o => powLoop R 70 n o f
  | none => none

/-- `NewIdeal(gens...)`: monic gcd -/
def newIdeal (gens : List (UPoly α)) : Option (UPoly α) :=
  match gens with
  | [] => none
  | f :: gs => (gcd F f gs).map (normalize F)

/-! ### interpolation (interpolation.go) -/

/-- `coefK(points, ignore, k)` -/
def coefK (points : List α) (ignore k : Nat) : α :=
  let chosen := points.length - 1 - k
  let combos := Auxmath.combinations points.length chosen
  let out := combos.foldl (fun out combo =>
    if combo.contains ignore then out
    else F.add out (combo.foldl (fun t i => F.mul t (points.getD i F.zero)) (F.ofNat 1))) F.zero
  if chosen % 2 ≠ 0 then F.neg out else out

/-- index of the last point equal to `ignore` (as the loop in the code), default 0 -/
def ignoreIndex (points : List α) (ignore : α) : Nat :=
  (points.zipIdx).foldl (fun acc (p, i) => if F.beq p ignore then i else acc) 0

/-- `lagrangeBasis(points, ignore)` -/
def lagrangeBasis (points : List α) (ignore : α) : UPoly α :=
  let idx := ignoreIndex F points ignore
  let f := (List.range points.length).foldl
    (fun f k => setCoef F f k (coefK F points idx k)) (zero F)
  let denom := (points.zipIdx).foldl
    (fun d (p, i) => if i = idx then d else F.mul d (F.sub ignore p)) F.one
  match F.inv denom with
  | some i => scale F f i
  | none => scale F f F.zero    -- Inv of zero carries the value 0: SetScale(0) gives zero

def allDistinct (points : List α) : Bool :=
  let strs := points.map F.toStr
  strs.length == strs.eraseDups.length

/-- `Interpolate` -/
def interpolate (points values : List α) : Except Kind (UPoly α) :=
  if points.length ≠ values.length then .error .inputValue
  else if !allDistinct F points then .error .inputValue
  else .ok ((points.zip values).foldl (fun f (p, v) =>
    if F.isZero v then f else add F f (scale F (lagrangeBasis F points p) v)) (zero F))

end UPoly
end Algobra
