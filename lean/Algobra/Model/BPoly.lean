/-
  Model/BPoly.lean — model of /repo/bivariate: orders.go, polynomial.go, arithmetic.go, groebner.go,
  ideal.go, ring.go, interpolation.go, parsing.go.
  A polynomial is an association list exponent-pair ↦ coefficient (Go: map[[2]uint]ff.Element),
  without duplicate keys and without zero values. CORE LEAN ONLY.
-/
import Algobra.Model.Ext
namespace Algobra
open Algobra Regex

abbrev Deg := Nat × Nat

/-! ### orders.go -/
inductive OrderKind where
  | lex
  | wdeglex (wx wy : Nat)
  | wdegrevlex (wx wy : Nat)
  deriving Repr, DecidableEq, Inhabited

structure Order where
  kind : OrderKind
  xGtY : Bool
  deriving Repr, DecidableEq, Inhabited

namespace Order

/-- the closure `f` inside `Lex` -/
def lexBase (a b : Deg) : Int :=
  if a = b then 0
  else if a.1 > b.1 then 1
  else if a.1 < b.1 then -1
  else if a.1 = b.1 ∧ a.2 > b.2 then 1
  else if a.1 = b.1 ∧ a.2 < b.2 then -1
  else 0

def swap (a : Deg) : Deg := (a.2, a.1)

/-- `Lex(xGtY)` -/
def lex (xGtY : Bool) (a b : Deg) : Int :=
  if xGtY then lexBase a b else lexBase (swap a) (swap b)

/-- weighted degree on wrapping words -/
def wdeg (wx wy : Nat) (a : Deg) : Nat := w64 (w64 (a.1 * wx) + w64 (a.2 * wy))

/-- `degCompare(xWeight, yWeight, tiebreak)` -/
def degCompare (wx wy : Nat) (tiebreak : Deg → Deg → Int) (a b : Deg) : Int :=
  if a = b then 0
  else if wdeg wx wy a > wdeg wx wy b then 1
  else if wdeg wx wy a < wdeg wx wy b then -1
  else tiebreak a b

def cmp (o : Order) (a b : Deg) : Int :=
  match o.kind with
  | .lex => lex o.xGtY a b
  | .wdeglex wx wy => degCompare wx wy (lex o.xGtY) a b
  | .wdegrevlex wx wy => degCompare wx wy (fun a b => -1 * lex (!o.xGtY) a b) a b

end Order

abbrev BPoly (α : Type) := List (Deg × α)

namespace BPoly
variable {α : Type} (F : FOps α)

def zero : BPoly α := []

/-- `Coef(deg)` -/
def coef (f : BPoly α) (d : Deg) : α :=
  match f.find? (·.1 == d) with
  | some (_, c) => c
  | none => F.zero

def has (f : BPoly α) (d : Deg) : Bool := f.any (·.1 == d)

def erase (f : BPoly α) (d : Deg) : BPoly α := f.filter (·.1 != d)

/-- store `v ≠ 0` at `d` -/
def put (f : BPoly α) (d : Deg) (v : α) : BPoly α :=
  if has f d then f.map fun (k, c) => if k == d then (k, v) else (k, c) else f ++ [(d, v)]

/-- `SetCoef` / `SetCoefPtr` -/
def setCoef (f : BPoly α) (d : Deg) (v : α) : BPoly α :=
  if F.isZero v then erase f d else put f d v

/-- `IncrementCoef` -/
def incCoef (f : BPoly α) (d : Deg) (v : α) : BPoly α :=
  if F.isZero v then f
  else if has f d then
    let c := F.add (coef F f d) v
    if F.isZero c then erase f d else put f d c
  else f ++ [(d, v)]

/-- `DecrementCoef` -/
def decCoef (f : BPoly α) (d : Deg) (v : α) : BPoly α :=
  if F.isZero v then f
  else if has f d then
    let c := F.sub (coef F f d) v
    if F.isZero c then erase f d else put f d c
  else f ++ [(d, F.neg v)]

def add (f g : BPoly α) : BPoly α := g.foldl (fun acc (d, c) => incCoef F acc d c) f
def sub (f g : BPoly α) : BPoly α := g.foldl (fun acc (d, c) => decCoef F acc d c) f
def neg (f : BPoly α) : BPoly α := f.map fun (d, c) => (d, F.neg c)

/-- `addDegs` : `none` = Overflow -/
def addDegs (a b : Deg) : Option Deg :=
  let s : Deg := (w64 (a.1 + b.1), w64 (a.2 + b.2))
  if s.1 < a.1 || s.2 < a.2 then none else some s

/-- `subtractDegs` -/
def subDegs (a b : Deg) : Option Deg :=
  if a.1 ≥ b.1 && a.2 ≥ b.2 then some (a.1 - b.1, a.2 - b.2) else none

/-- `multNoReduce` : `none` = exponent overflow -/
def mulNoReduce (f g : BPoly α) : Option (BPoly α) :=
  f.foldl (fun acc (df, cf) =>
    g.foldl (fun acc (dg, cg) =>
      match acc, addDegs df dg with
      | some h, some s => some (incCoef F h s (F.mul cf cg))
      | _, _ => none) acc) (some [])

/-- `Scale` and (after "fix: SetScale by zero") `SetScale` -/
def scale (f : BPoly α) (c : α) : BPoly α :=
  if F.isZero c then [] else f.map fun (d, x) => (d, F.mul x c)

/-- `Ld()` -/
def ld (o : Order) (f : BPoly α) : Deg :=
  f.foldl (fun l (d, _) => if o.cmp d l = 1 then d else l) (0, 0)

def lc (o : Order) (f : BPoly α) : α := coef F f (ld o f)

/-- `Lt()` (after "fix: Lt of zero") -/
def lt (o : Order) (f : BPoly α) : BPoly α := setCoef F [] (ld o f) (lc F o f)

def normalize (o : Order) (f : BPoly α) : BPoly α :=
  if f.isEmpty then f
  else match F.inv (lc F o f) with
    | some i => scale F f i
    | none => f      -- unreachable: stored coefficients are nonzero

/-- insertion into a list sorted in decreasing order -/
def insertDesc (o : Order) (d : Deg) : List Deg → List Deg
  | [] => [d]
  | e :: t => if o.cmp d e ≥ 0 then d :: e :: t else e :: insertDesc o d t

/-- `SortedDegrees()` -/
def sortedDegrees (o : Order) (f : BPoly α) : List Deg :=
  f.foldl (fun acc (d, _) => insertDesc o d acc) []

/-- canonical listing: support in decreasing order with coefficients -/
def sortedTerms (o : Order) (f : BPoly α) : List (Deg × α) :=
  (sortedDegrees o f).map fun d => (d, coef F f d)

def isZero (f : BPoly α) : Bool := f.isEmpty
def isMonomial (f : BPoly α) : Bool := f.length == 1

def equal (f g : BPoly α) : Bool :=
  f.length == g.length && f.all fun (d, c) => has g d && F.beq (coef F g d) c

/-- `Eval` -/
def eval (f : BPoly α) (x y : α) : α :=
  f.foldl (fun out (d, c) => F.add out (F.mul (F.mul c (F.pow x d.1)) (F.pow y d.2))) F.zero

/-- `subWithShiftAndScale` -/
def subShiftScale (f g : BPoly α) (i : Deg) (a : α) : BPoly α :=
  if F.isZero a then f
  else if F.isOne a then
    g.foldl (fun acc (d, c) => if F.isZero c then acc else decCoef F acc (w64 (d.1 + i.1), w64 (d.2 + i.2)) c) f
  else
    g.foldl (fun acc (d, c) => if F.isZero c then acc
      else decCoef F acc (w64 (d.1 + i.1), w64 (d.2 + i.2)) (F.mul a c)) f

/-! ### division -/

/-- first divisor (skipping index `ignore`) whose leading exponent divides `pLd` -/
def firstDiv (o : Order) (pLd : Deg) (ignore : Option Nat) :
    List (BPoly α) → Nat → Option (Nat × BPoly α × Deg)
  | [], _ => none
  | g :: gs, i =>
    if ignore == some i then firstDiv o pLd ignore gs (i + 1)
    else match subDegs pLd (ld o g) with
      | some dd => some (i, g, dd)
      | none => firstDiv o pLd ignore gs (i + 1)

def lcQuot (o : Order) (p g : BPoly α) : α :=
  let gl := lc F o g
  if F.isOne gl then F.mul (lc F o p) gl
  else match F.inv gl with
    | some i => F.mul (lc F o p) i
    | none => F.zero    -- unreachable: zero divisors are rejected before the loop

/-- loop of `quoRemWithIgnore`; `none` = fuel exhausted -/
def quoRemLoop (o : Order) (ignore : Option Nat) (gs : List (BPoly α)) :
    Nat → BPoly α → List (BPoly α) → BPoly α → Option (List (BPoly α) × BPoly α)
  | 0, _, _, _ => none
  | fuel + 1, p, qs, r =>
    if p.isEmpty then some (qs, r)
    else
      let pLd := ld o p
      match firstDiv o pLd ignore gs 0 with
      | some (i, g, dd) =>
        let t := lcQuot F o p g
        let qs' := qs.set i (incCoef F (qs.getD i []) dd t)
        quoRemLoop o ignore gs fuel (subShiftScale F p g dd t) qs' r
      | none =>
        quoRemLoop o ignore gs fuel (erase p pLd) qs (incCoef F r pLd (coef F p pLd))

/-- `QuoRem` / `quoRemWithIgnore` (after "fix: zero divisor"): InputValue error for a zero divisor -/
def quoRem (o : Order) (fuel : Nat) (ignore : Option Nat) (f : BPoly α) (gs : List (BPoly α)) :
    Except Kind (Option (List (BPoly α) × BPoly α)) :=
  if gs.any (·.isEmpty) then .error .inputValue
  else .ok (quoRemLoop F o ignore gs fuel f (gs.map fun _ => []) [])

/-- `Rem` (same loop without quotient bookkeeping; modelled through the same function) -/
def rem (o : Order) (fuel : Nat) (f : BPoly α) (gs : List (BPoly α)) : Except Kind (Option (BPoly α)) :=
  match quoRem F o fuel none f gs with
  | .error k => .error k
  | .ok r => .ok (r.map (·.2))

/-! ### rings -/

structure Ring (α : Type) where
  F : FOps α
  ord : Order
  varNames : String × String
  /-- generators of the ideal of a quotient ring (a Gröbner basis, flagged as such) -/
  ideal : Option (List (BPoly α))

def divFuel : Nat := 100000

/-- `(*Polynomial).reduce` -/
def reduceIn (R : Ring α) (f : BPoly α) : Option (BPoly α) :=
  match R.ideal with
  | none => some f
  | some gs => match rem R.F R.ord divFuel f gs with
    | .ok r => r
    | .error _ => none

/-- `Times` / `Mult`: `.error overflow`, or the reduced product (`none` = fuel) -/
def times (R : Ring α) (f g : BPoly α) : Except Kind (Option (BPoly α)) :=
  match mulNoReduce R.F f g with
  | none => .error .overflow
  | some h => .ok (reduceIn R h)

/-- `Pow` -/
def powLoop (R : Ring α) : Nat → Nat → BPoly α → BPoly α → Except Kind (Option (BPoly α))
  | 0, _, _, _ => .ok none
  | fuel + 1, n, out, g =>
    if n = 0 then .ok (some out)
    else
      let out' := if n % 2 = 1 then times R out g else .ok (some out)
      match out' with
      | .error k => .error k
      | .ok none => .ok none
      | .ok (some o) =>
        if n / 2 = 0 then .ok (some o)
        else match times R g g with
          -- an overflow while squaring `g` surfaces at the next multiplication into `out`
          | .error k => .error k
          | .ok none => .ok none
          | .ok (some g2) => powLoop R fuel (n / 2) o g2

def pow (R : Ring α) (f : BPoly α) (n : Nat) : Except Kind (Option (BPoly α)) :=
  match reduceIn R [((0, 0), R.F.one)] with
  | some o => powLoop R 70 n o f
  | none => .ok none

/-- constructor from a coefficient map (`Polynomial`, `PolynomialFromUnsigned/Signed`) -/
def ofMap (R : Ring α) (m : List (Deg × α)) : Option (BPoly α) :=
  reduceIn R (m.foldl (fun acc (d, c) => if R.F.isZero c then acc else put acc d c) [])

/-! ### groebner.go -/

def monomialLcm (o : Order) (f g : BPoly α) : BPoly α :=
  let a := ld o f; let b := ld o g
  [((max a.1 b.1, max a.2 b.2), F.one)]

/-- `SPolynomial(f, g)` in a ring without ideal; `none` = overflow or fuel -/
def sPoly (o : Order) (f g : BPoly α) : Option (BPoly α) :=
  let ltf := lt F o f; let ltg := lt F o g
  let lcm := monomialLcm F o ltf ltg
  match quoRemLoop F o none [ltf] 1000 lcm [[]] [], quoRemLoop F o none [ltg] 1000 lcm [[]] [] with
  | some (q1, _), some (q2, _) =>
    match mulNoReduce F (q1.headD []) f, mulNoReduce F (q2.headD []) g with
    | some a, some b => some (sub F a b)
    | _, _ => none
  | _, _ => none

/-- remainders of all S-polynomials of pairs `i < j` of `gb` that do not vanish; `none` = fuel -/
def sPairRems (o : Order) (gb : List (BPoly α)) : Option (List (BPoly α)) :=
  let idx := gb.zipIdx
  idx.foldl (fun acc (f, i) =>
    idx.foldl (fun acc (g, j) =>
      if j ≤ i then acc
      else match acc, sPoly F o f g with
        | some news, some s =>
          match quoRemLoop F o none gb divFuel s (gb.map fun _ => []) [] with
          | some (_, r) => if r.isEmpty then some news else some (news ++ [r])
          | none => none
        | _, _ => none) acc) (some [])

/-- size cap of a modelled Buchberger run -/
def maxBasis : Nat := 400

/-- rounds of `GroebnerBasis()` -/
def buchberger (o : Order) : Nat → List (BPoly α) → Option (List (BPoly α))
  | 0, _ => none
  | fuel + 1, gb =>
    -- the model gives up (reported as `fuel-exhausted`, never as a value) on runs that blow up
    if gb.length > maxBasis then none
    else match sPairRems F o gb with
    | none => none
    | some [] => some gb
    | some news => buchberger o fuel (gb ++ news)

/-- an ideal object: generators and the three tri-state flags -/
structure Ideal (α : Type) where
  gens : List (BPoly α)
  isGroebner : Int := 0
  isMinimal : Int := 0
  isReduced : Int := 0

def groebnerFuel : Nat := 40

/-- `GroebnerBasis()` -/
def Ideal.groebnerBasis (o : Order) (id : Ideal α) : Option (Ideal α) :=
  if id.isGroebner = 1 then some id
  else (buchberger F o groebnerFuel id.gens).map fun gb => { gens := gb, isGroebner := 1 }

/-- un-cached decision of `IsGroebner()` -/
def decideGroebner (o : Order) (gens : List (BPoly α)) : Option Bool :=
  (sPairRems F o gens).map (·.isEmpty)

/-- `IsGroebner()` : new object state and answer -/
def Ideal.isGroebnerQ (o : Order) (id : Ideal α) : Option (Ideal α × Bool) :=
  if id.isGroebner = 1 then some (id, true)
  else if id.isGroebner = -1 then some (id, false)
  else (decideGroebner F o id.gens).map fun b => ({ id with isGroebner := if b then 1 else -1 }, b)

/-- `leadingTerms()` : normalises the generators as a side effect -/
def leadingTerms (o : Order) (gens : List (BPoly α)) : List (BPoly α) × List (BPoly α) :=
  let gens' := gens.map (normalize F o)
  (gens', gens'.map (lt F o))

/-- is `lts[i]` divisible by another leading term: remainder of `lts[i]` on division ignoring `i` vanishes -/
def spannedByOthers (o : Order) (lts : List (BPoly α)) (i : Nat) : Bool :=
  match quoRemLoop F o (some i) lts 1000 (lts.getD i []) (lts.map fun _ => []) [] with
  | some (_, r) => r.isEmpty
  | none => false

/-- the removal loop of `MinimizeBasis` -/
def minimizeLoop (o : Order) : Nat → Nat → List (BPoly α) → List (BPoly α) → List (BPoly α)
  | 0, _, gens, _ => gens
  | fuel + 1, i, gens, lts =>
    if i ≥ gens.length then gens
    else if spannedByOthers F o lts i then minimizeLoop o fuel i (gens.eraseIdx i) (lts.eraseIdx i)
    else minimizeLoop o fuel (i + 1) gens lts

/-- `MinimizeBasis()` : `.error inputValue` when not a Gröbner basis.
    (after "fix: stale isReduced flag": the reducedness cache is reset) -/
def Ideal.minimizeBasis (o : Order) (id : Ideal α) : Option (Ideal α × Except Kind Unit) :=
  match id.isGroebnerQ F o with
  | none => none
  | some (id, false) => some (id, .error .inputValue)
  | some (id, true) =>
    let (gens', lts) := leadingTerms F o id.gens
    let gens'' := minimizeLoop F o (gens'.length + 1) 0 gens' lts
    some ({ id with gens := gens'', isMinimal := 1, isReduced := if id.isReduced = 1 then 1 else 0 }, .ok ())

/-- `IsMinimal()` -/
def Ideal.isMinimalQ (o : Order) (id : Ideal α) : Option (Ideal α × Bool) :=
  if id.isMinimal = 1 then some (id, true)
  else if id.isMinimal = -1 then some (id, false)
  else match id.isGroebnerQ F o with
    | none => none
    | some (id, false) => some ({ id with isMinimal := -1 }, false)
    | some (id, true) =>
      let (gens', lts) := leadingTerms F o id.gens
      let b := (List.range lts.length).all fun i => !spannedByOthers F o lts i
      some ({ id with gens := gens', isMinimal := if b then 1 else -1 }, b)

/-- remainder of `gens[i]` on division by the other generators -/
def remByOthers (o : Order) (gens : List (BPoly α)) (i : Nat) : Option (BPoly α) :=
  (quoRemLoop F o (some i) gens divFuel (gens.getD i []) (gens.map fun _ => []) []).map (·.2)

/-- `ReduceBasis()` -/
def Ideal.reduceBasis (o : Order) (id : Ideal α) : Option (Ideal α × Except Kind Unit) :=
  match id.isGroebnerQ F o with
  | none => none
  | some (id, false) => some (id, .error .inputValue)
  | some (id, true) =>
    let idM := if id.isMinimal ≠ 1 then (id.minimizeBasis F o).map (·.1) else some id
    match idM with
    | none => none
    | some id =>
      -- generators are replaced one after the other, later divisions see earlier replacements
      let gensO := (List.range id.gens.length).foldl (fun acc i =>
        match acc with
        | none => none
        | some gens => (remByOthers F o gens i).map fun r => gens.set i r) (some id.gens)
      gensO.map fun gens => ({ id with gens := gens, isReduced := 1 }, .ok ())

/-- `IsReduced()` (after "fix: IsReduced compares the remainder with the generator") -/
def Ideal.isReducedQ (o : Order) (id : Ideal α) : Option (Ideal α × Bool) :=
  if id.isReduced = 1 then some (id, true)
  else if id.isReduced = -1 then some (id, false)
  else match id.isMinimalQ F o with
    | none => none
    | some (id, false) => some ({ id with isReduced := -1 }, false)
    | some (id, true) =>
      let rs := (List.range id.gens.length).map fun i =>
        (remByOthers F o id.gens i).map fun r => equal F r (id.gens.getD i [])
      if rs.any (· == none) then none
      else
        let b := rs.all (· == some true)
        some ({ id with isReduced := if b then 1 else -1 }, b)

/-- `Quotient(id)` on a ring without ideal: Gröbner basis + reduced basis unless flagged -/
def quotientGens (o : Order) (id : Ideal α) : Option (List (BPoly α)) :=
  if id.isGroebner = 1 then some id.gens
  else match id.groebnerBasis F o with
    | none => none
    | some gb => (gb.reduceBasis F o).map (·.1.gens)

/-! ### interpolation.go -/

def distinctStrs (xs : List α) : List α :=
  xs.foldl (fun acc x => if acc.any (fun y => F.toStr y == F.toStr x) then acc else acc ++ [x]) []

def allDistinct (points : List (α × α)) : Bool :=
  let strs := points.map fun (x, y) => (F.toStr x, F.toStr y)
  strs.length == strs.eraseDups.length

/-- univariate Lagrange basis in variable `v` (0 = X, 1 = Y) as a bivariate polynomial -/
def lagrangeBasis (points : List α) (ignore : α) (v : Nat) : BPoly α :=
  let idx := UPoly.ignoreIndex F points ignore
  let f := (List.range points.length).foldl (fun f k =>
    setCoef F f (if v = 0 then (k, 0) else (0, k)) (UPoly.coefK F points idx k)) []
  let denom := (points.zipIdx).foldl
    (fun d (p, i) => if i = idx then d else F.mul d (F.sub ignore p)) F.one
  match F.inv denom with
  | some i => scale F f i
  | none => []

/-- `Interpolate` : error kind, or the polynomial (`none` = fuel in a quotient ring) -/
def interpolate (R : Ring α) (points : List (α × α)) (values : List α) : Except Kind (Option (BPoly α)) :=
  let F := R.F
  if points.length ≠ values.length then .error .inputValue
  else if !allDistinct F points then .error .inputValue
  else
    let dx := distinctStrs F (points.map (·.1))
    let dy := distinctStrs F (points.map (·.2))
    (points.zip values).foldl (fun acc (p, v) =>
      match acc with
      | .error k => .error k
      | .ok none => .ok none
      | .ok (some f) =>
        if F.isZero v then .ok (some f)
        else
          let one : BPoly α := setCoef F [] (0, 0) F.one
          match times R one (lagrangeBasis F dx p.1 0) with
          | .error k => .error k
          | .ok none => .ok none
          | .ok (some t1) =>
            match times R t1 (lagrangeBasis F dy p.2 1) with
            | .error k => .error k
            | .ok none => .ok none
            | .ok (some t2) => .ok (some (add F f (scale F t2 v)))) (.ok (some []))

/-! ### printing and parsing -/

/-- `(*Polynomial).String()` -/
def toStr (R : Ring α) (f : BPoly α) : String :=
  let F := R.F
  if f.isEmpty then "0"
  else
    let terms := (sortedDegrees R.ord f).map fun d =>
      let c := coef F f d
      let cs := if !F.isOne c || (d.1 == 0 && d.2 == 0) then
          (if F.nTerms c > 1 then "(" ++ F.toStr c ++ ")" else F.toStr c) else ""
      let xs := (if d.1 ≥ 1 then R.varNames.1 else "") ++ (if d.1 > 1 then "^" ++ toString d.1 else "")
      let ys := (if d.2 ≥ 1 then R.varNames.2 else "") ++ (if d.2 > 1 then "^" ++ toString d.2 else "")
      cs ++ xs ++ ys
    " + ".intercalate terms

/-- `parseExponent` -/
def parseExponent (s : String) : Option Nat := if s == "" then some 1 else parseUint s

/-- `polynomialStringToMap` through the general regular-expression engine (`partial`) -/
def stringToMapRx (R : Ring α) (s : String) : Except Kind (List (Deg × α)) :=
  let F := R.F
  let xOrYenv := fun e =>
    if e == "regexp.QuoteMeta((*varNames)[0])" then some (quoteMeta R.varNames.1)
    else if e == "regexp.QuoteMeta((*varNames)[1])" then some (quoteMeta R.varNames.2) else none
  match assemble xOrYenv Gen.bivXOrY with
  | none => .error .internal
  | some xOrY =>
    let env := fun e =>
      if e == "qr.baseField.RegexElement(true)" then some (F.regex true)
      else if e == "xOrY" then some xOrY else none
    match (assemble env Gen.bivPattern).bind compile with
    | none => .error .internal
    | some (re, ncap) =>
      let ms := findAll re ncap s
      let total := ms.foldl (fun acc g => acc + (g[0]!).utf8ByteSize) 0
      if total ≠ s.utf8ByteSize then .error .parsing
      else
        let v0 := UPoly.strLower R.varNames.1
        let v1 := UPoly.strLower R.varNames.2
        let rec go (l : List (Array String)) (out : List (Deg × α)) : Except Kind (List (Deg × α)) :=
          match l with
          | [] => .ok out
          | g :: t =>
            if g.size ≠ 8 then .error .parsing
            else
              let sign := g[1]!; let coefS := g[2]! ++ g[7]!
              let var0 := UPoly.strLower g[3]!; let var1 := UPoly.strLower g[5]!
              let deg0 := g[4]!; let deg1 := g[6]!
              if coefS == "" && var0 == "" && var1 == "" && deg0 == "" && deg1 == "" then .error .parsing
              else
                -- ensureVariableOrder
                let ordered : Option (String × String × String × String) :=
                  if var0 == v0 && (var1 == v1 || var1 == "") then some (var0, var1, deg0, deg1)
                  else if var0 == v1 && (var1 == v0 || var1 == "") then some (var1, var0, deg1, deg0)
                  else if var0 == "" && var1 == "" then some (var0, var1, deg0, deg1)
                  else none
                match ordered with
                | none => .error .parsing
                | some (a0, a1, d0, d1) =>
                  let coefE : Except Kind α :=
                    if coefS == "" then .ok F.one
                    else match F.parse (UPoly.trimParens coefS) with
                      | .ok c => .ok c
                      | .error _ => .error .conversion
                  match coefE with
                  | .error k => .error k
                  | .ok c =>
                    let c := if sign == "-" then F.neg c else c
                    let e0 := if a0 != "" then parseExponent d0 else some 0
                    match e0 with
                    | none => .error .conversion
                    | some x =>
                      let e1 := if a1 != "" then parseExponent d1 else some 0
                      match e1 with
                      | none => .error .conversion
                      | some y => go t (UPoly.mapAdd F out (x, y) c)
        go ms.toList []

/-- the names for which the total tokeniser `Parse.matchesB` is used -/
def directOK (R : Ring α) : Bool :=
  Parse.simpleName R.varNames.1 && Parse.simpleName R.varNames.2 &&
    (match R.F.ownVar with
     | none => true
     | some w => Parse.simpleName w && Parse.unconf R.varNames.1 w && Parse.unconf R.varNames.2 w)

/-- `polynomialStringToMap`: matches from the total tokeniser for simple names (`none` = the
    matches do not cover the input: Parsing error), post-processing of `stringToMapRx` -/
def stringToMap (R : Ring α) (s : String) : Except Kind (List (Deg × α)) :=
  if directOK R then
    match Parse.matchesB R.F.ownVar R.varNames.1 R.varNames.2 s with
    | none => .error .parsing
    | some ms =>
      stringToMapRx.go R.F (UPoly.strLower R.varNames.1) (UPoly.strLower R.varNames.2) ms []
  else stringToMapRx R s

/-- `PolynomialFromString` -/
def parse (R : Ring α) (s : String) : Except Kind (Option (BPoly α)) :=
  match stringToMap R s with
  | .error k => .error k
  | .ok m => .ok (ofMap R m)

end BPoly
end Algobra
