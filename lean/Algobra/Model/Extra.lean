/-
  Model/Extra.lean — the protocol operations that are not an `Op` of `step` (Model/Hist.lean):
  `escr@f`, `tcheck@f`, `eN=any…@f arg`, `quotient iN` (with the generators it remembers),
  `quotient@1 iN`, `quotient@2 iN`, `uquot@k j:gens`, `qK=embed@3 src:r`, `qK=spoly qA qB`,
  `ireduce iN qK`, `uireduce j:gens pK`.
  One total function per operation: old store (and, where needed, the remembered generators of the ring
  made by the last successful `quotient`) ↦ new store (and generators) and the reply string.
  `Driver.lean` only parses the line and calls these functions. CORE LEAN ONLY.
  Theorems about them: Props/C17Extra.lean.
-/
import Algobra.Model.Hist
namespace Algobra
open Algobra

section extra
variable {α : Type} (env : Env α)

/-! ### pure observers -/

/-- `escr@f` (harness: call `Elements()`, then scribble over everything returned): a pure accessor, no state
    change; the reply is the number of elements. -/
def escrOp (st : St α) (f : Nat) : St α × String :=
  (st, "ok " ++ toString (env.fld f).card)

/-- `tcheck@f` (harness: every element of the field, with its table, against a twin field object without table:
    x·g, x⁻¹, x·1): the model's reply is "no mismatch". -/
def tcheckOp (st : St α) (f : Nat) : St α × String :=
  (st, "ok 0 of " ++ toString (env.fld f).card)

/-! ### `eN=any…@f arg` : the generic constructor `Field.Element(interface{})` -/

/-- Σ cᵢ·aⁱ (a = the field's generator), computed with the field's own operations -/
def hornerGen (Fi : FOps α) (cs : List α) : α :=
  cs.foldr (fun c acc => Fi.add (Fi.mul acc Fi.gen) c) Fi.zero

/-- the items of a slice argument (`-` or nothing: the empty slice) -/
def anyItems (a0 : String) : List String :=
  if a0 == "-" || a0 == "" then [] else a0.splitOn "."

def FieldDesc.isExt : FieldDesc → Bool
  | .ext .. => true
  | _ => false

/-- `Element(interface{})` only dispatches on the dynamic type of its argument: uint → `u`, int → `s`,
    string → `str`; []uint / []int: extension fields only, the value is Σ cᵢ·aⁱ; every other type, and slices
    for prime and binary fields: `none` (an Input error, no object). -/
def anyRewrite (desc : FieldDesc) (dst idx : Nat) (op a0 : String) : Option Op :=
  let Fi := env.fld idx
  if op == "anyu" then some (.eCtor dst idx "u" a0)
  else if op == "anyi" then some (.eCtor dst idx "s" a0)
  else if op == "anystr" then some (.eCtor dst idx "str" a0)
  else if op == "anysl" && desc.isExt then
    some (.eCtor dst idx "enc" (Fi.enc (hornerGen Fi ((anyItems a0).map fun t => Fi.ofNat t.toNat!))))
  else if op == "anyisl" && desc.isExt then
    some (.eCtor dst idx "enc" (Fi.enc (hornerGen Fi ((anyItems a0).map fun t => Fi.ofInt (parseInt t)))))
  else none

def anyOp (desc : FieldDesc) (st : St α) (dst idx : Nat) (op a0 : String) : St α × String :=
  match anyRewrite env desc dst idx op a0 with
  | some o => step env desc st o
  | none => (st, "err Input")

/-! ### `Quotient` of bivariate rings -/

/-- `quotient iN` (`ring0.Quotient(id)`): the `step` operation `.iXform "quotient" n`; when it succeeds the
    generators `Quotient` stores for the new ring are remembered (for `embed@3`). -/
def quotientOp (desc : FieldDesc) (stq : St α × Option (List (BPoly α))) (n : Nat) :
    (St α × Option (List (BPoly α))) × String :=
  let (st', r) := step env desc stq.1 (.iXform "quotient" n)
  let lq := if r == "ok" then BPoly.quotientGens (F0 env) (bord env 0) (iGet stq.1 n) else stq.2
  ((st', lq), r)

/-- `quotient@1 iN`: ring 1 (a quotient ring, when the header gave it an ideal) `.Quotient(id)`: a quotient of a
    quotient ring is refused first, InputValue. Without such a ring the line is malformed. -/
def quotient1Op (st : St α) (_n : Nat) : St α × String :=
  (st, if (bring env 1).ideal.isSome then "err InputValue" else "bad-op")

/-- `quotient@2 iN`: ring 2 (a ring the ideal does not belong to) `.Quotient(id)`: the Gröbner basis is computed
    first (so the model may give up there), then InputIncompatible. -/
def quotient2Op (desc : FieldDesc) (st : St α) (n : Nat) : St α × String :=
  let r := (step env desc st (.iXform "quotient" n)).2
  (st, if r == "ok" then "err InputIncompatible" else r)

/-- `qK=embed@3 src:r`: embedding (with or without reduction) into the ring made by the last successful
    `quotient` operation, whose stored generators are `gs`. Ring 2 is a different ring object. -/
def embedQOp (st : St α) (gs : List (BPoly α)) (dst src : Nat) (reduce : Bool) : St α × String :=
  let ra := bGet st src
  if ra.home == 2 then (st, "err InputIncompatible")
  else
    let R3 : BPoly.Ring α := { bring env 0 with ideal := some gs }
    match (if reduce then BPoly.reduceIn R3 ra.val else some ra.val) with
    | none => (st, "fuel-exhausted")
    | some v =>
      let r : BReg α := { home := 3, val := v, err := ra.err }
      ({ st with bs := St.setL st.bs dst r }, "ok " ++ showB env r)

/-! ### `Quotient` of univariate rings -/

/-- univariate ring objects of a history: 0 and 2 always; 1 and 3 are the quotient rings of the header -/
def uRingExists (i : Nat) : Bool :=
  i == 0 || i == 2 || (i == 1 && (uring env 1).modulus.isSome) || (i == 3 && (uring env 3).modulus.isSome)

/-- `uquot@k j:<gens>`: ring k modulo an ideal made in ring j from `gens` (rings 1 and 3 are quotient rings;
    ring 2 is another ring object than 0, 1, 3). First the ideal is made (`err-ideal`), then `Quotient` refuses a
    quotient ring (InputValue), then an ideal of another ring (InputIncompatible). -/
def uquotOp (st : St α) (k j : Nat) (gens : List (UPoly α)) : St α × String :=
  if !(uRingExists env k && uRingExists env j) then (st, "bad-op")
  else
    match UPoly.newIdeal (F0 env) gens with
    | none => (st, "err-ideal InputValue")
    | some g =>
      if UPoly.isZero (F0 env) g then (st, "err-ideal InputValue")
      else if k == 1 || k == 3 then (st, "err InputValue")
      else if (k == 2) != (j == 2) then (st, "err InputIncompatible")
      else (st, "ok")

/-! ### `Ideal.Reduce` -/

/-- `uireduce j:<gens> pK`: an ideal is made in univariate ring j and its public `Reduce` is applied to pK:
    the polynomial's own error first, then the ring test (ArithmeticIncompat), then the remainder modulo the
    monic generator (the unit ideal gives zero: `UPoly.reduce`). -/
def uireduceOp (st : St α) (j : Nat) (gens : List (UPoly α)) (k : Nat) : St α × String :=
  let rp := uGet env st k
  match UPoly.newIdeal (F0 env) gens with
  | none => (st, "err-ideal InputValue")
  | some g =>
    if UPoly.isZero (F0 env) g then (st, "err-ideal InputValue")
    else if rp.err.isErr then (st, "err " ++ toString rp.err)
    else if rp.home != j then (st, "err ArithmeticIncompat")
    else
      match UPoly.reduce (F0 env) g rp.val with
      | none => (st, "fuel-exhausted")
      | some v =>
        let r : UReg α := { rp with val := v }
        ({ st with us := St.setL st.us k r }, "ok " ++ showU env r)

/-- `ireduce iN qK`: `id.Reduce(f)` — `IsGroebner()` is asked first (and cached in the ideal object); when the
    answer is no, a Groebner basis is computed on the side; f becomes its remainder modulo the basis. -/
def ireduceOp (st : St α) (n k : Nat) : St α × String :=
  let id := iGet st n; let rf := bGet st k
  let F := F0 env
  let o := bord env 0
  match id.isGroebnerQ F o with
  | none => (st, "fuel-exhausted")
  | some (id1, isG) =>
    let st1 := { st with ids := St.setL st.ids n id1 }
    match (if isG then some id1 else id1.groebnerBasis F o) with
    | none => (st1, "fuel-exhausted")
    | some gb =>
      if rf.err.isErr then (st1, "err " ++ toString rf.err)
      else if rf.home != 0 then (st1, "err ArithmeticIncompat")
      else match BPoly.rem F o BPoly.divFuel rf.val gb.gens with
        | .error e => (st1, "err " ++ toString e)
        | .ok none => (st1, "fuel-exhausted")
        | .ok (some v) =>
          let r : BReg α := { rf with val := v }
          ({ st1 with bs := St.setL st1.bs k r }, "ok " ++ showB env r)

/-! ### `bivariate.SPolynomial` -/

/-- `qK=spoly qA qB`: the exported `bivariate.SPolynomial` (operand errors and rings as every binary operation;
    a zero operand is refused with InputValue since "fix: bivariate.SPolynomial refuses the zero polynomial").
    Both products are made with `Mult`, which reduces in a quotient ring; so does `Minus`. -/
def spolyOp (st : St α) (dst a b : Nat) : St α × String :=
  let ra := bGet st a; let rb := bGet st b
  match bCheck ra [rb] with
  | some (r, _) => (st, "err " ++ toString r.err)
  | none =>
    if ra.val.isEmpty || rb.val.isEmpty then (st, "err InputValue")
    else
      match BPoly.sPoly (F0 env) (bord env ra.home) ra.val rb.val with
      | none => (st, "fuel-exhausted")
      | some sp =>
        match BPoly.reduceIn (bring env ra.home) sp with
        | none => (st, "fuel-exhausted")
        | some v =>
          let r : BReg α := { home := ra.home, val := v }
          ({ st with bs := St.setL st.bs dst r }, "ok " ++ showB env r)

end extra
end Algobra
