/-
  Model/Errors.lean — error kinds of errors/errors.go and the error status of an object.
-/
namespace Algobra

/-- the nine non-`Inherit` kinds, in `iota` order (1..9) -/
inductive Kind where
  | input | inputValue | inputIncompatible | inputTooLarge | arithmeticIncompat
  | parsing | conversion | overflow | internal
  deriving DecidableEq, Repr, Inhabited

def Kind.toString : Kind → String
  | .input => "Input" | .inputValue => "InputValue" | .inputIncompatible => "InputIncompatible"
  | .inputTooLarge => "InputTooLarge" | .arithmeticIncompat => "ArithmeticIncompat"
  | .parsing => "Parsing" | .conversion => "Conversion" | .overflow => "Overflow"
  | .internal => "Internal"

instance : ToString Kind := ⟨Kind.toString⟩

/-- names in iota order, index 0 = Inherit; compared with the regenerated `Gen.kindNames` -/
def kindNamesInOrder : List String :=
  ["Inherit", "Input", "InputValue", "InputIncompatible", "InputTooLarge", "ArithmeticIncompat",
   "Parsing", "Conversion", "Overflow", "Internal"]

/-- error status carried by an element or polynomial:
    `none` = nil error, `kindless` = an `*Error` chain that bottoms out without a kind
    (`Wrap(op, Inherit, nil)`), `kind k` = `errors.Is(k, err)`. -/
inductive Err where
  | none | kindless | kind (k : Kind)
  deriving DecidableEq, Repr, Inhabited

def Err.toString : Err → String
  | .none => "-" | .kindless => "Kindless" | .kind k => k.toString

instance : ToString Err := ⟨Err.toString⟩

def Err.isErr : Err → Bool
  | .none => false | _ => true

/-- `errors.Wrap(op, Inherit, e)` : keeps the kind of `e`; wrapping nil gives a kind-less error. -/
def Err.wrapInherit : Err → Err
  | .none => .kindless
  | e => e

/-- `errors.Wrap(op, k, e)` for `k ≠ Inherit` -/
def Err.wrap (k : Kind) (_e : Err) : Err := .kind k

end Algobra
