/-
  Model/Field.lean — the element interface (`ff.Element`) as a record of operations, and the
  models of primefield and binfield arithmetic on machine words.
  CORE LEAN ONLY.
-/
import Algobra.Model.Word
import Algobra.Model.Errors
import Algobra.Model.Auxmath
namespace Algobra
open Algobra

/-- what the polynomial packages use of a coefficient field (`ff.Field` / `ff.Element`) -/
structure FOps (α : Type) where
  char : Nat
  card : Nat
  zero : α
  one : α
  add : α → α → α
  sub : α → α → α
  mul : α → α → α
  neg : α → α
  /-- `Inv()`; `none` when the code returns an element carrying an InputValue error -/
  inv : α → Option α
  pow : α → Nat → α
  trace : α → α
  isZero : α → Bool
  isOne : α → Bool
  beq : α → α → Bool
  /-- `ElementFromUnsigned` -/
  ofNat : Nat → α
  /-- `ElementFromSigned` (argument already a Go `int`) -/
  ofInt : Int → α
  nTerms : α → Nat
  toStr : α → String
  /-- `ElementFromString` -/
  parse : String → Except Kind α
  /-- `RegexElement(requireParens)` -/
  regex : Bool → String
  gen : α
  /-- wire format of the line protocol -/
  enc : α → String
  dec : String → Option α
  /-- the variable the field's own elements are written in (`none`: prime fields) — selects the
      coefficient syntax of the total tokenisers of `Model/Parse.lean` -/
  ownVar : Option String := none

/-- generic `Pow` of the three element types: zero cases, exponent reduction modulo `card-1`
    when `n ≥ card`, then square-and-multiply with the in-place `Mult`. -/
def powLoop {α} (mul : α → α → α) (out b : α) (n : Nat) : α :=
  if h : n = 0 then out
  else powLoop mul (if n % 2 = 1 then mul out b else out) (mul b b) (n / 2)
decreasing_by omega

def genericPow {α} (card : Nat) (zero one : α) (isZero : α → Bool) (mul : α → α → α)
    (a : α) (n : Nat) : α :=
  if isZero a then (if n = 0 then one else zero)
  else
    let n := if n ≥ card then n % (card - 1) else n
    powLoop mul one a n

/-! ## primefield -/
namespace Prime

/-- `f.element(v)` -/
def element (p v : Nat) : Nat := v % p

def add (p a b : Nat) : Nat := w64 (a + b) % p

def sub (p a b : Nat) : Nat := if a ≥ b then a - b else w64 (a + (p - b))

def mul (p a b : Nat) : Nat := if a = 0 ∨ b = 0 then 0 else w64 (a * b) % p

def neg (p a : Nat) : Nat := (p - a) % p

/-- `ElementFromSigned(v)` for a Go `int` v -/
def fromSigned (p : Nat) (v : Int) : Nat :=
  let r := goMod v (Int.ofNat p)
  let r := if r < 0 then r + Int.ofNat p else r
  element p (intToWord r)

/-- extended Euclid loop of `Inv`: words r0 r1, Go ints i0 i1.
    (`r0 - q*r1` of the code is written `r0 % r1`: `q*r1 ≤ r0`, so nothing wraps.) -/
def invLoop (r0 r1 : Nat) (i0 i1 : Int) : Int :=
  if h : r1 = 0 then i0
  else
    invLoop r1 (r0 % r1) i1 (wrapInt (i0 - wrapInt (wordToInt (r0 / r1) * i1)))
termination_by r1
decreasing_by exact Nat.mod_lt _ (by omega)

def inv (p a : Nat) : Option Nat :=
  if a = 0 then none else some (fromSigned p (invLoop p a 0 1))

def pow (p a n : Nat) : Nat :=
  genericPow p (element p 0) (element p 1) (· == 0) (mul p) a n

/-! tables (tables.go): triangular storage -/

def estimateMemory (p : Nat) : Nat := w64 (w64 (p * w64 (p + 1)) * (uintSize / 16)) >>> 10

def newTable (p : Nat) (op : Nat → Nat → Nat) : List (List Nat) :=
  (List.range p).map fun i => (List.range (p - i)).map fun d => op i (i + d)

def lookup (t : List (List Nat)) (i j : Nat) : Nat :=
  if j < i then (t.getD j []).getD (i - j) 0 else (t.getD i []).getD (j - i) 0

/-- `ComputeTables(add, mult, maxMem...)`: error kind or success; tables are pure caches -/
def computeTables (p : Nat) (add mult : Bool) (maxMem : Nat) : Except Kind Unit :=
  if (add || mult) && estimateMemory p > maxMem then .error .inputTooLarge else .ok ()

/-- `MultGenerator` search (after "fix: primefield.MultGenerator"): smallest `i ≥ 2` with
    `i^((p-1)/r) ≠ 1` for every prime factor `r` of `p-1`; fuel bounds the search. -/
def isGenerator (p : Nat) (factors : List Nat) (i : Nat) : Bool :=
  factors.all fun r => !(pow p (element p i) ((p - 1) / r) == 1)

def genSearch (p : Nat) (factors : List Nat) (i : Nat) : Nat → Nat
  | 0 => 0
  | fuel + 1 => if isGenerator p factors i then element p i else genSearch p factors (i + 1) fuel

def multGenerator (p : Nat) : Nat :=
  if p = 2 then 1
  else genSearch p ((Auxmath.factorize 64 (p - 1)).map (·.1)) 2 p

/-- `primefield.Define` -/
def define (card : Nat) : Except Kind Nat :=
  if card = 0 then .error .inputValue
  else if card - 1 ≥ 1 <<< (uintSize / 2) then .error .inputTooLarge
  else match Auxmath.factorizePrimePower card with
    | .error k => .error k
    | .ok (_, n) => if n ≠ 1 then .error .inputValue else .ok card

def isDigits (s : String) : Bool := !s.isEmpty && s.all Char.isDigit

/-- `ElementFromString` (after "fix: primefield.ElementFromString nil match") -/
def parse (p : Nat) (s : String) : Except Kind Nat :=
  let negative := s.startsWith "-"
  let body := if negative then (s.drop 1).toString else s
  if !isDigits body then .error .parsing
  else
    let v := body.toNat!
    if negative then
      if v > 2 ^ 63 then .error .parsing else .ok (fromSigned p (-(Int.ofNat v)))
    else
      if v ≥ 2 ^ 64 then .error .parsing else .ok (element p v)

end Prime

def primeOps (p : Nat) : FOps Nat where
  char := p
  card := p
  zero := 0
  one := 1 % p
  add := Prime.add p
  sub := Prime.sub p
  mul := Prime.mul p
  neg := Prime.neg p
  inv := Prime.inv p
  pow := Prime.pow p
  trace := id
  isZero := (· == 0)
  isOne := (· == 1)
  beq := (· == ·)
  ofNat := Prime.element p
  ofInt := Prime.fromSigned p
  nTerms := fun _ => 1
  toStr := toString
  parse := Prime.parse p
  regex := fun _ => "[0-9]*"
  gen := Prime.multGenerator p
  enc := toString
  dec := fun s => if Prime.isDigits s then some s.toNat! else none

/-! ## binfield -/
namespace Bin

/-- `(*Element).reduce`: cancel the top bit with the shifted Conway polynomial while the bit
    length exceeds `n`. -/
def reduce (n m v : Nat) : Nat :=
  if h : bitLen v > n then
    let v' := v ^^^ w64 (m <<< (bitLen v - n - 1))
    if bitLen v' < bitLen v then reduce n m v' else v'   -- second branch unreachable for a valid m
  else v
termination_by bitLen v

/-- the shift-and-add loop of `Prod` -/
def mulLoop (n m : Nat) (res x y : Nat) : Nat :=
  if h : x = 0 then res
  else
    let res := res ^^^ w64 (y * (x % 2))
    let y := w64 (y <<< 1)
    let y := y ^^^ w64 ((y >>> n) * m)
    mulLoop n m res (x / 2) y
decreasing_by omega

def mul (n m a b : Nat) : Nat := mulLoop n m 0 a b

def card (n : Nat) : Nat := w64 (1 <<< n)

def pow (n m a k : Nat) : Nat :=
  genericPow (card n) 0 1 (· == 0) (mul n m) a k

/-- `bitQuoRem` -/
def bitQuoRemLoop (b l : Nat) (quo a : Nat) : Nat × Nat :=
  if h : a = 0 then (quo, a)
  else if hl : bitLen a ≥ l then
    let a' := a ^^^ w64 (b <<< (bitLen a - l))
    if a' < a then bitQuoRemLoop b l (quo ^^^ w64 (1 <<< (bitLen a - l))) a'
    else (quo ^^^ w64 (1 <<< (bitLen a - l)), a')  -- unreachable when b ≠ 0
  else (quo, a)
termination_by a

def bitQuoRem (a b : Nat) : Nat × Nat := bitQuoRemLoop b (bitLen b) 0 a

/-- `bitProd` -/
def bitProdLoop (out a b : Nat) : Nat :=
  if h : b = 0 then out
  else bitProdLoop (out ^^^ w64 (a * (b % 2))) (w64 (a <<< 1)) (b / 2)
decreasing_by omega

def bitProd (a b : Nat) : Nat := bitProdLoop 0 a b

def invLoop (r0 r1 i0 i1 : Nat) : Nat → Nat
  | 0 => i0
  | fuel + 1 =>
    if r1 = 0 then i0
    else
      let (quo, rem) := bitQuoRem r0 r1
      invLoop r1 rem i1 (i0 ^^^ bitProd i1 quo) fuel

def inv (n m a : Nat) : Option Nat :=
  if a = 0 then none
  else if a = 1 then some a
  else some (reduce n m (invLoop m a 0 1 (2 * n + 4)))

def traceLoop (n m a out : Nat) : Nat → Nat
  | 0 => out
  | k + 1 => traceLoop n m a (pow n m out 2 ^^^ a) k

def trace (n m a : Nat) : Nat := traceLoop n m a a (n - 1)

/-- `conwayPoly += c << i` over the coefficient list -/
def polyFromCoefs (cs : List Nat) : Nat :=
  (cs.zipIdx).foldl (fun acc (c, i) => w64 (acc + w64 (c <<< i))) 0

def fromSigned (v : Int) : Nat :=
  let r := goMod v 2
  let r := if r < 0 then r + 2 else r
  intToWord r

/-- `String()` -/
def toStr (varName : String) (n v : Nat) : String :=
  if v = 0 then "0"
  else
    let degs := (List.range (n + 1)).reverse.filter fun d => v.testBit d
    let terms := degs.map fun d =>
      if d = 0 then "1" else if d = 1 then varName else varName ++ "^" ++ toString d
    " + ".intercalate terms

end Bin

end Algobra
