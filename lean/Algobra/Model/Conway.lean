/-
  Model/Conway.lean — model of finitefield/conway/conway.go over a database *text*
  (`Gen.dbText` is the regenerated text of the `cpimport` constant), and of the four `Define`
  functions. CORE LEAN ONLY.
-/
import Algobra.Model.Ext
import Algobra.Gen.ConwayText
namespace Algobra
open Algobra

namespace Conway

/-- does `s` start with `[^]]*\]\]`? returns the captured group -/
def closeGroup (s : String) : Option String :=
  let body := (s.takeWhile (· != ']')).toString
  let rest := (s.drop body.length).toString
  if rest.startsWith "]]" then some body else none

/-- `lookupInternal(char, extDeg, text)`: the first occurrence of `[char,extDeg,[` that is followed
    by `[^]]*]]` (what the unanchored pattern `\[%d,%d,\[([^]]*)\]\]` finds), then the length and
    number checks of the code. -/
def lookupIn (text : String) (p n : Nat) : Except Kind (List Nat) :=
  let pre := "[" ++ toString p ++ "," ++ toString n ++ ",["
  let pieces := text.splitOn pre
  match (pieces.drop 1).findSome? closeGroup with
  | none => .error .inputValue
  | some body =>
    let cs := body.splitOn ","
    if cs.length ≠ n + 1 then .error .internal
    else match cs.mapM parseUint with
      | some l => .ok l
      | none => .error .internal

/-- one database line `[p,n,[c0,…,cn]],` parsed into `(p, n, coefficients)` -/
def parseLine (line : String) : Option (Nat × Nat × List Nat) :=
  let l := line.trimAscii.toString
  if !l.startsWith "[" then none
  else
    let l := (l.drop 1).toString
    match l.splitOn ",[" with
    | [hd, tl] =>
      match hd.splitOn ",", closeGroup tl with
      | [ps, ns], some body =>
        match parseUint ps, parseUint ns, (body.splitOn ",").mapM parseUint with
        | some p, some n, some cs => some (p, n, cs)
        | _, _, _ => none
      | _, _ => none
    | _ => none

/-- all entries of a database text, in order -/
def parseDB (text : String) : List (Nat × Nat × List Nat) :=
  (text.splitOn "\n").filterMap parseLine

end Conway

/-! ### Define -/

inductive FieldDesc where
  | prime (p : Nat)
  | bin (n m : Nat)
  | ext (p n : Nat) (g : List Nat)
  deriving Repr, DecidableEq, Inhabited

namespace Define

/-- `binfield.Define` over database text `db` -/
def bin (db : String) (card : Nat) : Except Kind FieldDesc :=
  if card = 0 then .error .inputValue
  else match Auxmath.factorizePrimePower card with
    | .error k => .error k
    | .ok (char, extDeg) =>
      if char ≠ 2 then .error .inputValue
      else if extDeg > uintSize / 2 then .error .inputTooLarge
      else match Conway.lookupIn db 2 extDeg with
        | .error k => .error k
        | .ok cs => .ok (.bin extDeg (Bin.polyFromCoefs cs))

/-- `extfield.Define` -/
def ext (db : String) (card : Nat) : Except Kind FieldDesc :=
  if card = 0 then .error .inputValue
  else match Auxmath.factorizePrimePower card with
    | .error k => .error k
    | .ok (char, extDeg) =>
      match Prime.define char with
      | .error k => .error k
      | .ok _ =>
        match Conway.lookupIn db char extDeg with
        | .error k => .error k
        | .ok cs =>
          -- PolynomialFromUnsigned, NewIdeal (gcd of one generator, normalised), Quotient
          let R : UPoly.Ring Nat := { F := primeOps char, varName := "a", modulus := none }
          match UPoly.ofNats R cs with
          | none => .error .internal
          | some g => .ok (.ext char extDeg (UPoly.normalize (primeOps char) g))

/-- `primefield.Define` -/
def prime (card : Nat) : Except Kind FieldDesc := (Prime.define card).map FieldDesc.prime

/-- `finitefield.Define` -/
def any (db : String) (card : Nat) : Except Kind FieldDesc :=
  match Auxmath.factorizePrimePower card with
  | .error _ => .error .inputValue
  | .ok (char, extDeg) =>
    if char = 2 then bin db card
    else if extDeg = 1 then prime card
    else ext db card

end Define

def FieldDesc.card : FieldDesc → Nat
  | .prime p => p
  | .bin n _ => Bin.card n
  | .ext p n _ => Ext.card p n

def FieldDesc.char : FieldDesc → Nat
  | .prime p => p
  | .bin _ _ => 2
  | .ext p _ _ => p

end Algobra
