/-
  Model/Names.lean — the variable-name setters: `univariate.(*QuotientRing).SetVarName`,
  `bivariate.(*QuotientRing).SetVarNames`, `binfield.(*Field).SetVarName`.
  CORE LEAN ONLY.

  All three trim the argument with `strings.TrimSpace` and refuse a name that is empty afterwards
  (InputValue); `binfield` also refuses "0" and "1"; `bivariate` refuses two names that are equal
  ignoring letter case — but only AFTER it has stored them (the ring keeps the refused names; that is
  what the code does, and the model says so: the setter returns the state it leaves behind).
  `strings.TrimSpace` is modelled for ASCII text (the six ASCII white-space characters); the
  correspondence run generates ASCII names only.
-/
import Algobra.Model.Errors
import Algobra.Model.Ext
import Algobra.Model.BPoly
namespace Algobra.Names
open Algobra

def isGoSpace (c : Char) : Bool :=
  c == ' ' || c == '\t' || c == '\n' || c == '\r' || c == Char.ofNat 11 || c == Char.ofNat 12

/-- `strings.TrimSpace` on ASCII text -/
def trimSpace (s : String) : String :=
  String.ofList ((s.toList.dropWhile isGoSpace).reverse.dropWhile isGoSpace).reverse

/-- `univariate.(*QuotientRing).SetVarName`: the name the ring has afterwards, and the result -/
def setVarName (old new : String) : String × Except Kind Unit :=
  let t := trimSpace new
  if t.isEmpty then (old, .error .inputValue) else (t, .ok ())

/-- `binfield.(*Field).SetVarName` -/
def binSetVarName (old new : String) : String × Except Kind Unit :=
  let t := trimSpace new
  if t.isEmpty then (old, .error .inputValue)
  else if t == "0" || t == "1" then (old, .error .inputValue)
  else (t, .ok ())

/-- `bivariate.(*QuotientRing).SetVarNames`: names are stored one after the other, the comparison
    comes last -/
def setVarNames (old : String × String) (new : String × String) : (String × String) × Except Kind Unit :=
  let t0 := trimSpace new.1
  if t0.isEmpty then (old, .error .inputValue)
  else
    let t1 := trimSpace new.2
    if t1.isEmpty then ((t0, old.2), .error .inputValue)
    else if UPoly.strLower t0 == UPoly.strLower t1 then ((t0, t1), .error .inputValue)
    else ((t0, t1), .ok ())

end Algobra.Names
