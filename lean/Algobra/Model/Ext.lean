/-
  Model/Ext.lean — printers, string parsers (patterns from `Gen.Consts`), and the `FOps` instances
  for binary fields and for extension fields (extfield = univariate quotient ring over primefield).
  CORE LEAN ONLY.
-/
import Algobra.Model.UPoly
import Algobra.Model.Regex
import Algobra.Model.Parse
import Algobra.Gen.Consts
namespace Algobra
open Algobra Regex

/-! ### RegexElement of the three field kinds -/

/-- `RegexElement(requireParens)` of binfield / extfield, assembled from the regenerated parts -/
def regexElement (termP moreP parensP noParensP : List Part) (varExpr varName : String)
    (requireParens : Bool) : Option String := do
  let term ← assemble (fun e => if e == varExpr then some varName else none) termP
  let more ← assemble (fun e => if e == "termPattern" then some term else none) moreP
  let env := fun e => if e == "termPattern" then some term else if e == "moreTerms" then some more else none
  assemble env (if requireParens then parensP else noParensP)

def binRegexElement (varName : String) (rp : Bool) : String :=
  (regexElement Gen.binRegex_termPattern Gen.binRegex_moreTerms Gen.binRegex_parens Gen.binRegex_noParens
    "f.VarName()" varName rp).getD "<<unsupported pattern>>("

def extRegexElement (varName : String) (rp : Bool) : String :=
  (regexElement Gen.extRegex_termPattern Gen.extRegex_moreTerms Gen.extRegex_parens Gen.extRegex_noParens
    "f.polyRing.VarName()" varName rp).getD "<<unsupported pattern>>("

def primeRegexElement : String := (assemble (fun _ => none) Gen.priRegex).getD "<<unsupported pattern>>("

/-- `strconv.ParseUint(s, 10, 0)` on a digit string: `none` = range error -/
def parseUint (s : String) : Option Nat :=
  if s.isEmpty || !s.all Char.isDigit then none
  else let v := s.toNat!; if v < 2 ^ 64 then some v else none

/-- `strconv.ParseInt(s, 10, 0)` on a digit string (no sign): `none` = range error -/
def parseIntDigits (s : String) : Option Nat :=
  if s.isEmpty || !s.all Char.isDigit then none
  else let v := s.toNat!; if v < 2 ^ 63 then some v else none

/-! ### binfield.ElementFromString -/
namespace Bin

/-- the parser run through the general regular-expression engine (`partial`, opaque to proofs):
    used for variable names outside `Parse.simpleName`, and as a cross-check of the tokeniser -/
def parseRx (n m : Nat) (varName : String) (s : String) : Except Kind Nat :=
  let env := fun e => if e == "regexp.QuoteMeta(f.varName)" then some (quoteMeta varName) else none
  match (assemble env Gen.binElemPattern).bind compile with
  | none => .error .inputValue
  | some (re, ncap) =>
    let ms := findAll re ncap s
    let total := ms.foldl (fun acc g => acc + (g[0]!).utf8ByteSize) 0
    if total ≠ s.utf8ByteSize then .error .parsing
    else
      let rec go (l : List (Array String)) (val : Nat) : Except Kind Nat :=
        match l with
        | [] => .ok val
        | g :: t =>
          let t1 := g[1]!
          if t1 == "0" then go t val
          else if t1 == "1" then go t (val ^^^ 1)
          else
            let d := g[2]!
            if d == "" then go t (val ^^^ 2)
            else match parseUint d with
              | none => .error .inputValue
              | some deg =>
                if deg ≥ uintSize then .error .inputTooLarge
                else go t (val ^^^ w64 (1 <<< deg))
      match go ms.toList 0 with
      | .ok v => .ok (reduce n m v)
      | .error k => .error k

/-- `ElementFromString`: for simple variable names the matches come from the total tokeniser
    `Parse.matchesBin` (the same matches the engine finds; `none` = they do not cover the input),
    the post-processing is the one of `parseRx` -/
def parse (n m : Nat) (varName : String) (s : String) : Except Kind Nat :=
  if Parse.simpleName varName then
    match Parse.matchesBin varName s with
    | none => .error .parsing
    | some ms =>
      match parseRx.go ms 0 with
      | .ok v => .ok (reduce n m v)
      | .error k => .error k
  else parseRx n m varName s

end Bin

def binOps (n m : Nat) (varName : String := "a") : FOps Nat where
  char := 2
  card := Bin.card n
  zero := 0
  one := 1
  add := fun a b => a ^^^ b
  sub := fun a b => a ^^^ b
  mul := Bin.mul n m
  neg := id
  inv := Bin.inv n m
  pow := Bin.pow n m
  trace := Bin.trace n m
  isZero := (· == 0)
  isOne := (· == 1)
  beq := (· == ·)
  ofNat := fun v => v % 2
  ofInt := Bin.fromSigned
  nTerms := popCount
  toStr := Bin.toStr varName n
  parse := Bin.parse n m varName
  regex := binRegexElement varName
  gen := Bin.reduce n m 2
  enc := toString
  dec := fun s => if Prime.isDigits s then some s.toNat! else none
  ownVar := some varName

/-! ### univariate printing and parsing -/
namespace UPoly
variable {α : Type}

/-- `(*Polynomial).String()` -/
def toStr (F : FOps α) (varName : String) (f : UPoly α) : String :=
  if isZero F f then "0"
  else
    let terms := (degrees F f).map fun d =>
      let c := coef F f d
      let cs := if !F.isOne c || d == 0 then
          (if F.nTerms c > 1 then "(" ++ F.toStr c ++ ")" else F.toStr c) else ""
      cs ++ (if d == 1 then varName else if d > 1 then varName ++ "^" ++ toString d else "")
    " + ".intercalate terms

/-- `strings.Trim(s, "()")` -/
def trimParens (s : String) : String :=
  let isP := fun c => c == '(' || c == ')'
  String.ofList ((s.toList.dropWhile isP).reverse.dropWhile isP).reverse

def strLower (s : String) : String := String.ofList (s.toList.map Regex.lower)

/-- insert-or-add into the degree map of `polynomialStringToMap` -/
def mapAdd {κ : Type} [BEq κ] (F : FOps α) (m : List (κ × α)) (k : κ) (c : α) : List (κ × α) :=
  if m.any (·.1 == k) then m.map fun (k', v) => if k' == k then (k', F.add v c) else (k', v)
  else m ++ [(k, c)]

/-- `polynomialStringToMap` : degree ↦ coefficient, or the error kind — through the general
    regular-expression engine (`partial`, opaque to proofs) -/
def stringToMapRx (F : FOps α) (varName : String) (s : String) : Except Kind (List (Nat × α)) :=
  let env := fun e =>
    if e == "field.RegexElement(true)" then some (F.regex true)
    else if e == "regexp.QuoteMeta(*varName)" then some (quoteMeta varName) else none
  match (assemble env Gen.uniPattern).bind compile with
  | none => .error .internal
  | some (re, ncap) =>
    let ms := findAll re ncap s
    let total := ms.foldl (fun acc g => acc + (g[0]!).utf8ByteSize) 0
    if total ≠ s.utf8ByteSize then .error .parsing
    else
      let rec go (l : List (Array String)) (out : List (Nat × α)) : Except Kind (List (Nat × α)) :=
        match l with
        | [] => .ok out
        | g :: t =>
          if g.size ≠ 5 then .error .internal
          else
            let sign := g[1]!; let coefS := g[2]!; let name := strLower g[3]!; let degS := g[4]!
            if coefS == "" && name == "" && degS == "" then .error .parsing
            else
              let coefE : Except Kind α :=
                if coefS == "" then .ok F.one
                else match F.parse (trimParens coefS) with
                  | .ok c => .ok c
                  | .error _ => .error .conversion
              match coefE with
              | .error k => .error k
              | .ok c =>
                let c := if sign == "-" then F.neg c else c
                let degE : Except Kind Nat :=
                  if name != "" then
                    (if degS == "" then .ok 1 else match parseIntDigits degS with
                      | some d => .ok d
                      | none => .error .conversion)
                  else .ok 0
                match degE with
                | .error k => .error k
                | .ok d => go t (mapAdd F out d c)
      go ms.toList []

/-- the names for which the total tokeniser `Parse.matchesU` is used -/
def directOK (F : FOps α) (varName : String) : Bool :=
  Parse.simpleName varName &&
    (match F.ownVar with
     | none => true
     | some w => Parse.simpleName w)

/-- `polynomialStringToMap`: matches from the total tokeniser for simple names (`none` = the
    matches do not cover the input: Parsing error), post-processing of `stringToMapRx` -/
def stringToMap (F : FOps α) (varName : String) (s : String) : Except Kind (List (Nat × α)) :=
  if directOK F varName then
    match Parse.matchesU F.ownVar varName s with
    | none => .error .parsing
    | some ms => stringToMapRx.go F ms []
  else stringToMapRx F varName s

/-- `PolynomialFromString` (after "fix: reduce parsed polynomial") -/
def parse (R : Ring α) (s : String) : Except Kind (Option (UPoly α)) :=
  match stringToMap R.F R.varName s with
  | .error k => .error k
  | .ok m => .ok (reduceIn R (m.foldl (fun f (d, c) => setCoef R.F f d c) (zero R.F)))

end UPoly

/-! ### extfield -/
namespace Ext

/-- the polynomial ring F_p[a]/(g) an extension field delegates to -/
def ring (p : Nat) (g : List Nat) : UPoly.Ring Nat :=
  { F := primeOps p, varName := "a", modulus := some g }

/-- results of the ring operations are defined whenever the modulus has degree ≥ 1
    (`reduce` fuel lemma); the default is never used for a field returned by `Define`. -/
def unwrap (o : Option (UPoly Nat)) : UPoly Nat := o.getD [0]

def mul (p : Nat) (g : List Nat) (b c : UPoly Nat) : UPoly Nat :=
  let P := primeOps p
  if UPoly.isZero P b || UPoly.isZero P c then [0]
  else unwrap (UPoly.times (ring p g) b c)

/-- `Card()` (after "fix: extfield.Card"): wrapping product p·p·…·p -/
def card (p n : Nat) : Nat := (List.range n).foldl (fun c _ => w64 (c * p)) 1

def pow (p n : Nat) (g : List Nat) (a : UPoly Nat) (k : Nat) : UPoly Nat :=
  genericPow (card p n) [0] [1 % p] (UPoly.isZero (primeOps p)) (mul p g) a k

/-- Euclid loop of `Inv` with monic renormalisation -/
def invLoop (p : Nat) (g : List Nat) : Nat → UPoly Nat → UPoly Nat → UPoly Nat → UPoly Nat → UPoly Nat
  | 0, _, _, _, i1 => i1
  | fuel + 1, r0, r1, i0, i1 =>
    let P := primeOps p
    match UPoly.quoRemLoop P [r1] (UPoly.quoRemFuel r0) r0 [UPoly.zero P] (UPoly.zero P) with
    | none => i1
    | some (quo, rem) =>
      if UPoly.isZero P rem then i1
      else
        let lcInv := (P.inv (UPoly.lc P rem)).getD 0
        let q0 := quo.headD (UPoly.zero P)
        let i1' := UPoly.scale P (UPoly.sub P i0 (unwrap (UPoly.times (ring p g) q0 i1))) lcInv
        invLoop p g fuel r1 (UPoly.scale P rem lcInv) i1 i1'

def inv (p : Nat) (g : List Nat) (a : UPoly Nat) : Option (UPoly Nat) :=
  let P := primeOps p
  if UPoly.isZero P a then none
  else if UPoly.isOne P a then some a
  else
    let r0 := UPoly.normalize P g
    let r1 := UPoly.normalize P a
    let i1 := unwrap (UPoly.ofCoefs (ring p g) [(P.inv (UPoly.lc P a)).getD 0])
    some (invLoop p g (g.length + 2) r0 r1 (UPoly.zero P) i1)

def traceLoop (p n : Nat) (g : List Nat) (a out : UPoly Nat) : Nat → UPoly Nat
  | 0 => out
  | k + 1 => traceLoop p n g a (UPoly.add (primeOps p) (pow p n g out p) a) k

def trace (p n : Nat) (g : List Nat) (a : UPoly Nat) : UPoly Nat := traceLoop p n g a a (n - 1)

def parse (p : Nat) (g : List Nat) (s : String) : Except Kind (UPoly Nat) :=
  match UPoly.parse (ring p g) s with
  | .ok (some f) => .ok f
  | .ok none => .error .parsing
  | .error _ => .error .parsing     -- errors.Wrap(op, errors.Parsing, err)

def enc (a : UPoly Nat) : String := ",".intercalate (a.map toString)

def dec (s : String) : Option (UPoly Nat) :=
  let parts := s.splitOn ","
  if parts.all Prime.isDigits then some (parts.map String.toNat!) else none

end Ext

def extOps (p n : Nat) (g : List Nat) : FOps (UPoly Nat) where
  char := p
  card := Ext.card p n
  zero := [0]
  one := [1 % p]
  add := UPoly.add (primeOps p)
  sub := UPoly.sub (primeOps p)
  mul := Ext.mul p g
  neg := UPoly.neg (primeOps p)
  inv := Ext.inv p g
  pow := Ext.pow p n g
  trace := Ext.trace p n g
  isZero := UPoly.isZero (primeOps p)
  isOne := UPoly.isOne (primeOps p)
  beq := UPoly.equal (primeOps p)
  ofNat := fun v => Ext.unwrap (UPoly.ofNats (Ext.ring p g) [v])
  ofInt := fun v => Ext.unwrap (UPoly.ofInts (Ext.ring p g) [v])
  nTerms := UPoly.nTerms (primeOps p)
  toStr := UPoly.toStr (primeOps p) "a"
  parse := Ext.parse p g
  regex := extRegexElement "a"
  gen := Ext.unwrap (UPoly.ofNats (Ext.ring p g) [0, 1])
  enc := Ext.enc
  dec := Ext.dec
  ownVar := some "a"

end Algobra
