/-
  Certs/CheckerBig.lean — HAND-WRITTEN (not generated).  A faster executable Rabin checker for the
  184 database entries with `p^n ≥ 2^64` and degree `n > rabinMaxDeg` (thorough tier only; nothing
  in the default build imports this file).  CORE LEAN ONLY.

  Same test as `rabinOK` of `Certs/Checker.lean` (x^(p^n) = x and x^(p^(n/r)) - x invertible modulo
  f for every prime r | n, the Frobenius iterates being computed by repeated p-th powers), but the
  multiplication in F_p[x]/(f) is done on big natural numbers (Kronecker substitution, i.e. GMP
  inside the interpreter) instead of coefficient lists:

    * a residue `a` (list of `n` coefficients `< p`) is packed as `A = Σ a_i·B^i`, `B = 2^k` so
      large that no digit of the numbers below can overflow;
    * `C = A·A'` has the coefficients of the polynomial product as its base-`B` digits;
    * reduction modulo `f` (Barrett): the quotient is ESTIMATED as the digits `n-2 …` of
      `(C / B^n)·MU`, `MU` the packed `mu = ⌊x^(2n-2)/f⌋` (an untrusted hint of the certificate),
      negated modulo `p` to `q'`; then `R = C + Q'·F` (`F` the packed `f`) is unpacked and reduced
      modulo `p`.  If the coefficients `n … 2n-1` of the result vanish, the low `n` coefficients
      are the product in F_p[x]/(f) — WHATEVER `q'` was, since `R ≡ C` modulo `f`.  Otherwise (never
      happens with a correct hint) the verified list multiplication `mulL` is used.

  Nothing here is trusted: `Proofs/ConwayBig.lean` proves `rabinOKBig e cert = true → Irreducible`
  in the kernel (`rabinOKBig_sound`, reusing `rabin_irreducible`); only the closed evaluations
  `bigSlice k = true`, `bigCoverOK = true` are discharged by `native_decide` (Certs/BigNN.lean,
  Certs/BigAll.lean).
-/
import Algobra.Certs.Checker
namespace Algobra.C04Check

/-- `Σ l_i · B^i` -/
def packL (B : Nat) : List Nat → Nat
  | [] => 0
  | c :: l => c + B * packL B l

/-- the `m` lowest base-`B` digits, lowest first -/
def unpackL (B : Nat) : Nat → Nat → List Nat
  | 0, _ => []
  | m + 1, N => (N % B) :: unpackL B m (N / B)

def modL (p : Nat) (l : List Nat) : List Nat := l.map (fun c => c % p)

def negL (p : Nat) (l : List Nat) : List Nat := l.map (fun c => (p - c % p) % p)

/-- per-entry constants -/
structure BigCtx where
  p : Nat
  n : Nat
  /-- `x^n ≡ negf` (for the fallback `mulL`) -/
  negf : List Nat
  /-- the packing base -/
  B : Nat
  /-- packed `f` (all `n + 1` coefficients) -/
  F : Nat
  /-- packed quotient hint `mu` (untrusted) -/
  MU : Nat
  /-- `B^n` -/
  Bn : Nat
  /-- `B^(n-2)` -/
  Bn2 : Nat

/-- product in `F_p[x]/(f)` of the residues `a`, `b` whose packed forms are `A`, `A'` -/
def mulmodP (c : BigCtx) (a b : List Nat) (A A' : Nat) : List Nat :=
  let C := A * A'
  let q' := negL c.p (unpackL c.B (c.n - 1) ((C / c.Bn) * c.MU / c.Bn2))
  let r := modL c.p (unpackL c.B (2 * c.n) (C + packL c.B q' * c.F))
  if isZeroL c.p (r.drop c.n) then r.take c.n else modL c.p (mulL c.p c.n c.negf a b)

def mulmodK (c : BigCtx) (a b : List Nat) : List Nat :=
  mulmodP c a b (packL c.B a) (packL c.B b)

/-- general power in `F_p[x]/(f)` (as `powL`, with the fast multiplication) -/
def powK (c : BigCtx) (a : List Nat) (e : Nat) : List Nat :=
  if h0 : e = 0 then oneL c.n
  else if e = 1 then a
  else
    let t := powK c a (e / 2)
    let s := mulmodK c t t
    if e % 2 = 1 then mulmodK c s a else s
termination_by e
decreasing_by omega

def mkCtx (e : Entry) (mu : List Nat) : BigCtx :=
  let p := e.1
  let n := e.2.1
  let B := 2 ^ (Nat.log2 (n * n * p * p * p) + 2)
  { p := p, n := n, negf := negfOf p n e.2.2, B := B, F := packL B e.2.2,
    MU := packL B (modL p mu), Bn := B ^ n, Bn2 := B ^ (n - 2) }

/-- Rabin's test; certificate: `(0, mu)` (hint) and `(r, inverse of x^(p^(n/r)) - x)` for every
    prime `r ∣ n` -/
def rabinOKBig (e : Entry) (cert : List (Nat × List Nat)) : Bool :=
  let p := e.1
  let n := e.2.1
  let c := mkCtx e ((cert.lookup 0).getD [])
  let fr := (iterList (fun y => powK c y p) n (xL n)).toArray
  decide (2 ≤ n) && decide (2 * n * p * p < c.B) &&
  (match fr[n]? with
   | some y => isZeroL p (addL p y (negxL p n))
   | none => false) &&
  (List.range (n + 1)).all (fun r =>
    !(isPrimeNaive r && (n % r == 0)) ||
      (match cert.lookup r, fr[n / r]? with
       | some v, some y =>
         (v.length == n) &&
           isOneL p (mulmodK c (modL p v) (modL p (addL p y (negxL p n))))
       | _, _ => false))

/-! ## the items: (database index, module number, certificate text) -/

abbrev BigRaw := Nat × Nat × String

def bigOKItem (it : BigRaw) : Bool :=
  match dbArr[it.1]? with
  | some e => rabinOKBig e (parseRabinLine it.2.2)
  | none => false

/-- all items assigned to module `k` pass -/
def bigSliceOf (items : List BigRaw) (k : Nat) : Bool :=
  items.all (fun it => (it.2.1 != k) || bigOKItem it)

/-- every database entry with `p^n ≥ 2^64` and degree above `rabinMaxDeg` has an item, assigned to
    a module number below `mods` -/
def bigCoverOf (items : List BigRaw) (mods : Nat) : Bool :=
  (List.range db.length).all (fun i =>
    match dbArr[i]? with
    | some e =>
      decide (e.1 ^ e.2.1 < 2 ^ 64) || decide (e.2.1 ≤ rabinMaxDeg) ||
        items.any (fun it => (it.1 == i) && decide (it.2.1 < mods))
    | none => false)

end Algobra.C04Check
