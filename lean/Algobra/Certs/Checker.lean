/-
  Certs/Checker.lean — HAND-WRITTEN (not generated).  Executable checkers for property C04
  (Conway database).  CORE LEAN ONLY, so that the sweep modules `Certs/SweepNN.lean` are cheap to
  load and can be evaluated (by `native_decide`) in parallel with the Mathlib soundness proofs in
  `Proofs/Conway.lean`.

  Nothing in this file is trusted: every function here is given a kernel-checked soundness lemma
  in `Proofs/Conway.lean` ("checker = true → mathematical property").  The only statements
  discharged by `native_decide` are closed Boolean evaluations `checker … = true` of these
  functions on `Gen.dbText` and on the generated certificate text `Certs/Data.lean`.
-/
import Algobra.Model.Conway
namespace Algobra.C04Check
open Algobra

/-- a database entry `(p, n, [c0,…,cn])` -/
abbrev Entry := Nat × Nat × List Nat

/-- the parsed database (model function `Conway.parseDB` on the regenerated text) -/
def db : List Entry := Conway.parseDB Gen.dbText
def dbArr : Array Entry := db.toArray

/-! ## A. shape -/

def shapeOK (e : Entry) : Bool :=
  decide (2 ≤ e.1) && decide (1 ≤ e.2.1) && (e.2.2.length == e.2.1 + 1) &&
    e.2.2.all (fun c => decide (c < e.1)) && (e.2.2.getLast? == some 1)

/-- strict lexicographic order on the keys `(p, n)` -/
def keyLt (a b : Entry) : Bool := decide (a.1 < b.1) || (a.1 == b.1 && decide (a.2.1 < b.2.1))

def sortedKeys : List Entry → Bool
  | a :: b :: t => keyLt a b && sortedKeys (b :: t)
  | _ => true

def dbShapeOK (l : List Entry) (len : Nat) : Bool :=
  (l.length == len) && l.all shapeOK && sortedKeys l

/-! ## B. lookup: executable cross-check and key scanner -/

def lookupOKAt (i : Nat) : Bool :=
  match dbArr[i]? with
  | some e =>
    (match Conway.lookupIn Gen.dbText e.1 e.2.1 with
     | .ok cs' => cs' == e.2.2
     | .error _ => false)
  | none => false

def digitsVal (l : List Char) : Nat := l.foldl (fun a c => 10 * a + (c.toNat - 48)) 0

/-- if `l` starts with `[d+,d+,[` return the two numbers -/
def keyAt : List Char → Option (Nat × Nat)
  | '[' :: t =>
    match t.dropWhile Char.isDigit with
    | ',' :: t2 =>
      match t2.dropWhile Char.isDigit with
      | ',' :: '[' :: _ =>
        let d1 := t.takeWhile Char.isDigit
        let d2 := t2.takeWhile Char.isDigit
        if d1.isEmpty || d2.isEmpty then none else some (digitsVal d1, digitsVal d2)
      | _ => none
    | _ => none
  | _ => none

def scanKeysAux : List Char → List (Nat × Nat) → List (Nat × Nat)
  | [], acc => acc.reverse
  | c :: t, acc =>
    match keyAt (c :: t) with
    | some k => scanKeysAux t (k :: acc)
    | none => scanKeysAux t acc

/-- all `(p, n)` such that `[p,n,[` (any digit strings) occurs somewhere in the text -/
def scanKeys (l : List Char) : List (Nat × Nat) := scanKeysAux l []

def scanOK : Bool := scanKeys Gen.dbText.toList == db.map (fun e => (e.1, e.2.1))

/-! ## C. arithmetic in `F_p[x]/(f)` on coefficient lists (constant term first) -/

def addL (p : Nat) : List Nat → List Nat → List Nat
  | [], b => b
  | a, [] => a
  | x :: a, y :: b => ((x + y) % p) :: addL p a b

def scaleL (p c : Nat) (a : List Nat) : List Nat := a.map (fun x => (c * x) % p)

/-- `x^n ≡ negf` modulo `f = x^n + (lower part)` -/
def negfOf (p n : Nat) (cs : List Nat) : List Nat := (cs.take n).map (fun c => (p - c % p) % p)

/-- multiplication by `x` of a residue of length `n` -/
def mulX (p n : Nat) (negf a : List Nat) : List Nat :=
  let s := 0 :: a
  addL p (s.take n) (scaleL p (s.getD n 0) negf)

def mulL (p n : Nat) (negf : List Nat) : List Nat → List Nat → List Nat
  | [], _ => List.replicate n 0
  | x :: a, b => addL p (scaleL p x b) (mulX p n negf (mulL p n negf a b))

def oneL (n : Nat) : List Nat := 1 :: List.replicate (n - 1) 0

/-- the residue of `x^e` -/
def powX (p n : Nat) (negf : List Nat) (e : Nat) : List Nat :=
  if h : e = 0 then oneL n
  else
    let t := powX p n negf (e / 2)
    let s := mulL p n negf t t
    if e % 2 = 1 then mulX p n negf s else s
termination_by e
decreasing_by omega

def isOneL (p : Nat) : List Nat → Bool
  | [] => false
  | c :: t => (c % p == 1) && t.all (fun x => x % p == 0)

/-! ## primality: trial division and Pratt lines -/

def tdLoop (n : Nat) : Nat → Nat → Bool
  | _, 0 => false
  | d, fuel + 1 =>
    if n < d * d then true
    else if n % d == 0 then false
    else tdLoop n (d + 1) fuel

def isPrimeTD (n : Nat) : Bool := decide (2 ≤ n) && tdLoop n 2 n

def powMod (a e m : Nat) : Nat :=
  if h : e = 0 then 1 % m
  else
    let t := powMod a (e / 2) m
    let s := t * t % m
    if e % 2 = 1 then s * a % m else s
termination_by e
decreasing_by omega

/-- a line of the prime table: `(q, a, [(j,k),…])`: for `q < tdBound` only `q` matters; otherwise
    `a` is a primitive root mod `q` and `q - 1 = ∏ (prime at index j)^k` with all `j` smaller than
    the line's own index. -/
abbrev PLine := Nat × Nat × List (Nat × Nat)

def tdBound : Nat := 2 ^ 32

def primeAt (tab : Array PLine) (j : Nat) : Nat :=
  match tab[j]? with
  | some l => l.1
  | none => 0

def prodPows (q : Nat → Nat) : List (Nat × Nat) → Nat
  | [] => 1
  | jk :: t => q jk.1 ^ jk.2 * prodPows q t

def lineOK (tab : Array PLine) (i : Nat) : Bool :=
  match tab[i]? with
  | none => false
  | some l =>
    let q := l.1
    let a := l.2.1
    let fs := l.2.2
    if q < tdBound then isPrimeTD q
    else
      decide (2 ≤ q) && (powMod a (q - 1) q == 1) && (prodPows (primeAt tab) fs == q - 1) &&
        fs.all (fun jk => decide (jk.1 < i) && (powMod a ((q - 1) / primeAt tab jk.1) q != 1))

def tabOK (tab : Array PLine) : Bool := (List.range tab.size).all (lineOK tab)

/-! ## the per-entry check -/

def primitiveOK (tab : Array PLine) (e : Entry) (cert : List (Nat × Nat)) : Bool :=
  let p := e.1
  let n := e.2.1
  let N := p ^ n - 1
  let negf := negfOf p n e.2.2
  (prodPows (primeAt tab) cert == N) &&
  isOneL p (powX p n negf N) &&
  cert.all (fun jk => decide (jk.1 < tab.size) && !isOneL p (powX p n negf (N / primeAt tab jk.1)))

def entryOK (tab : Array PLine) (e : Entry) (cert : List (Nat × Nat)) : Bool :=
  shapeOK e && isPrimeTD e.1 && (decide (2 ^ 64 ≤ e.1 ^ e.2.1) || primitiveOK tab e cert)

def entryOKAt (tab : Array PLine) (certs : Array (List (Nat × Nat))) (i : Nat) : Bool :=
  match dbArr[i]?, certs[i]? with
  | some e, some c => entryOK tab e c
  | _, _ => false


/-! ## D. Rabin's irreducibility test for the entries with `p^n ≥ 2^64`

`f` of degree `n` is irreducible over `F_p` iff `x^(p^n) = x` in `F_p[x]/(f)` and
`x^(p^(n/r)) - x` is invertible there for every prime `r ∣ n`; the inverses are supplied by the
certificate. -/

/-- general power in `F_p[x]/(f)` -/
def powL (p n : Nat) (negf a : List Nat) (e : Nat) : List Nat :=
  if h0 : e = 0 then oneL n
  else if e = 1 then a
  else
    let t := powL p n negf a (e / 2)
    let s := mulL p n negf t t
    if e % 2 = 1 then mulL p n negf s a else s
termination_by e
decreasing_by omega

/-- the residue `x` (for `n ≥ 2`) -/
def xL (n : Nat) : List Nat := 0 :: 1 :: List.replicate (n - 2) 0

/-- the residue `-x` (for `n ≥ 2`) -/
def negxL (p n : Nat) : List Nat := 0 :: (p - 1) :: List.replicate (n - 2) 0

/-- `[y, step y, step (step y), …]` (`k + 1` elements) -/
def iterList (step : List Nat → List Nat) : Nat → List Nat → List (List Nat)
  | 0, y => [y]
  | k + 1, y => y :: iterList step k (step y)

def isZeroL (p : Nat) (l : List Nat) : Bool := l.all (fun x => x % p == 0)

def isPrimeNaive (r : Nat) : Bool :=
  decide (2 ≤ r) && (List.range r).all (fun s => decide (s < 2) || (r % s != 0))

/-- Degrees above this bound are not certified, only because of native evaluation time with the
    interpreted list arithmetic (cost ≈ n³·log p).  Measured: with `rabinMaxDeg := 409` (and
    `gen_certs.py` re-run) all 7 653 large entries pass, using 92 CPU-minutes; with 128 the 7 469
    entries of degree ≤ 128 are certified.  `gen_certs.py` reads this constant. -/
def rabinMaxDeg : Nat := 128

def rabinOK (e : Entry) (cert : List (Nat × List Nat)) : Bool :=
  let p := e.1
  let n := e.2.1
  let negf := negfOf p n e.2.2
  let fr := (iterList (fun y => powL p n negf y p) n (xL n)).toArray
  decide (2 ≤ n) &&
  (match fr[n]? with
   | some y => isZeroL p (addL p y (negxL p n))
   | none => false) &&
  (List.range (n + 1)).all (fun r =>
    !(isPrimeNaive r && (n % r == 0)) ||
      (match cert.lookup r, fr[n / r]? with
       | some v, some y => isOneL p (mulL p n negf v (addL p y (negxL p n)))
       | _, _ => false))

/-- the complete per-entry check: shape, characteristic prime, primitive if `p^n < 2^64`,
    irreducible (Rabin) if `p^n ≥ 2^64` and `n ≤ rabinMaxDeg` -/
def entryOK2 (tab : Array PLine) (e : Entry) (cert : List (Nat × Nat))
    (rcert : List (Nat × List Nat)) : Bool :=
  entryOK tab e cert &&
    (decide (e.1 ^ e.2.1 < 2 ^ 64) || decide (rabinMaxDeg < e.2.1) || rabinOK e rcert)

def entryOK2At (tab : Array PLine) (certs : Array (List (Nat × Nat)))
    (rcerts : Array (List (Nat × List Nat))) (i : Nat) : Bool :=
  match dbArr[i]?, certs[i]?, rcerts[i]? with
  | some e, some c, some rc => entryOK2 tab e c rc
  | _, _, _ => false

/-- `f i` for all `i < len` with `i % m = k` -/
def stride (m k : Nat) (f : Nat → Bool) (len : Nat) : Bool :=
  (List.range len).all (fun i => (i % m != k) || f i)

/-! ## parsing of the certificate text -/

def parsePair (s : String) : Nat × Nat :=
  match s.splitOn ":" with
  | [a, b] => (a.toNat!, b.toNat!)
  | _ => (0, 0)

def parseCertLine (s : String) : List (Nat × Nat) :=
  if s.isEmpty then [] else (s.splitOn " ").map parsePair

def parseCerts (chunks : List String) : Array (List (Nat × Nat)) :=
  (((String.join chunks).splitOn "\n").map parseCertLine).toArray

def parseTabLine (s : String) : PLine :=
  match s.splitOn " " with
  | [] => (0, 0, [])
  | [q] => (q.toNat!, 0, [])
  | q :: a :: rest => (q.toNat!, a.toNat!, rest.map parsePair)

def parseTab (chunks : List String) : Array PLine :=
  ((((String.join chunks).splitOn "\n").filter (fun s => !s.isEmpty)).map parseTabLine).toArray

/-- `r:c0,c1,…` -/
def parseRabinItem (s : String) : Nat × List Nat :=
  match s.splitOn ":" with
  | [r, v] => (r.toNat!, (v.splitOn ",").map String.toNat!)
  | _ => (0, [])

def parseRabinLine (s : String) : List (Nat × List Nat) :=
  if s.isEmpty then [] else (s.splitOn " ").map parseRabinItem

def parseRabin (chunks : List String) : Array (List (Nat × List Nat)) :=
  (((String.join chunks).splitOn "\n").map parseRabinLine).toArray

end Algobra.C04Check
