/-
  Certs/TabCheck.lean — HAND-WRITTEN.  Closed Boolean evaluations that do not need to be split:
  the prime table, the shape of the database and the key scan.
-/
import Algobra.Certs.Inst
namespace Algobra.C04Check

/-- every line of the prime table passes trial division resp. the Lucas test -/
theorem tab_ok : tabOK tab = true := by native_decide

/-- number of entries, shape of every entry, keys strictly increasing -/
theorem db_shape_ok : dbShapeOK db Data.dbCount = true := by native_decide

/-- the only places where `[digits,digits,[` occurs in the text are the keys of the parsed entries -/
theorem scan_ok : scanOK = true := by native_decide

end Algobra.C04Check
