/-
  Certs/Inst.lean — HAND-WRITTEN.  The checkers of `Certs/Checker.lean` instantiated with the
  generated certificate data of `Certs/Data.lean`.
-/
import Algobra.Certs.Checker
import Algobra.Certs.Data
namespace Algobra.C04Check

/-- the prime table (untrusted data; checked by `tabOK`) -/
def tab : Array PLine := parseTab Data.tabChunks

/-- factorisations of `p^n - 1`, one per database entry (untrusted data; checked by `entryOK`) -/
def certs : Array (List (Nat × Nat)) := parseCerts Data.certChunks

/-- Rabin certificates, one per database entry (untrusted data; checked by `rabinOK`) -/
def rcerts : Array (List (Nat × List Nat)) := parseRabin Data.rabinChunks

def entryOKAtData (i : Nat) : Bool := entryOK2At tab certs rcerts i

end Algobra.C04Check
