/-
  Certs/Inst.lean — HAND-WRITTEN.  The checkers of `Certs/Checker.lean` instantiated with the
  generated certificate data of `Certs/Data.lean`.
-/
import Algobra.Certs.Checker
import Algobra.Certs.Data
namespace Algobra.C04Check

/-- the prime table (untrusted data; checked by `tabOK`) -/
def tab : Array PLine := parseTab Data.tabChunks

/-- factorisations of `p^n - 1`, one per database entry (untrusted data; checked by `entryOK`) -/
def certs : Array (List (Nat × Nat)) := parseCerts Data.certChunks

def entryOKAtData (i : Nat) : Bool := entryOKAt tab certs i

end Algobra.C04Check
